#!/usr/bin/env python3
"""Regenerates MANIFEST.json from the table below (kept valid at all times)."""
import json, subprocess
claimed = {
 "C01": ("exploration", "Seeded search over (configuration, key set, call history) with the map reference model checked on every return value, all store code real on the simulated disk. This property has no schedule or fault dimension; what simulation adds over the tests is the adversarial key/config generator, the model oracle on every call, shrinking, and a disk cheap enough to roll files on every record.", "4/C01",
         "Sampling, not enumeration. Trusts the source transform, simos fidelity to package os, and the map model.",
         "deterministic simulation: seeded history/configuration search vs map reference model"),
}
claimed.update({
 "C03": ("fault_enumeration", "Every mutating file operation of a generated history (flush, index GC, primary GC, freelist hand-over, Close, Open, reopen) is a crash point, plus every sampled byte-prefix of each appended write and nested crashes during recovery; each image is booted in a fresh simulated process: open must succeed, every key must read as its last-flushed or a later acknowledged/in-flight state with Get/Has/GetSize agreeing, and the recovered store is driven on through ops, flush, fsck, two GC cycles of each kind and a reopen. Quick samples <=24 images per history, thorough enumerates all crash points of each history.", "4/C03",
         "Process-crash model only (written data survives); file-operation granularity; histories sampled. Trusts transform, simos fidelity and the admissibility oracle.",
         "deterministic simulation with crash-point / torn-write fault enumeration vs recovery-admissibility oracle"),
 "C04": ("exploration", "Seeded histories with index-GC and primary-GC cycles interleaved at arbitrary positions (unflushed data, scan-free on/off, low-use thresholds 0..101, cycles interrupted after n context checks and resumed) with the map model checked on every later call, iteration and reopen; panics are violations.", "4/C04",
         "Sampling of histories; sequential (concurrent GC is C06). GC cycles that return an error are counted but are not content changes.",
         "deterministic simulation: seeded GC-interleaved histories vs map reference model"),
 "C07": ("exploration", "An independent parser of header, index log, bucket table / snapshot, primary and freelist files checks the stated invariant literally at every quiescent checkpoint (after each Flush and Close) of generated histories, in two modes (table rebuilt by log scan; live table or snapshot), and that both modes and the model agree on the contents.", "4/C07",
         "Formats re-implemented from DESIGN.md Appendix D; quiescent states are sampled, not enumerated.",
         "deterministic simulation: independent fsck oracle over every quiescent disk image reached"),
})
pending = {}
for i in range(1,18):
    pid = "C%02d" % i
    if pid not in claimed:
        pending[pid] = "check under construction in this session (engine not yet registered); will be claimed once its check passes on the unchanged tree"
m = {
 "version": 1,
 "setup_cmd": "bin/verif setup",
 "hooks": {
   "guard": "verif",
   "enable": "go build -tags verif, with the repository's non-test sources passed through bin/simrewrite (go build -overlay) so that os/sync/time/context, goroutines, channels, select and map iteration run on the simulator in /verif/sim",
   "baseline_off_cmd": "cd /repo && GOFLAGS=-mod=mod GOPROXY=off go test -vet=off -count=1 -timeout 25m ./...",
   "source_commits": ["d4b3514"],
   "add_only": True
 },
 "engines": [
   {"name": "simcheck", "path": "sim/cmd/simcheck", "serves_properties": sorted(claimed), "kind_free_text": "deterministic simulator (seeded scheduler, virtual clock, simulated disk with fault injection) running the real store code rebuilt from /repo through a source-to-source transform"}
 ],
 "checks": [],
 "not_applicable": [{"property_id": k, "reason": v} for k, v in sorted(pending.items())],
 "notes": "All checks: bin/verif check <ID> <tier>. Exit 0 held / 1 VIOLATION / 2 infrastructure. VERIF_SEED honoured (default 1); VERIF_BUDGET_S overrides the wall-clock budget; replay with bin/verif replay <file>. Known findings: KNOWN_FINDINGS.txt."
}
for pid,(lvl,text,ref,note,tech) in sorted(claimed.items()):
    m["checks"].append({
      "property_id": pid,
      "quick_cmd": "bin/verif check %s quick" % pid,
      "thorough_cmd": "bin/verif check %s thorough" % pid,
      "evidence_file": "/verif/evidence/%s.json" % pid,
      "replay_cmd_template": "bin/verif replay {path}",
      "engine": "simcheck",
      "level_claimed": {"category": lvl, "text": text, "design_ref": ref},
      "level_note": note,
      "technique": tech,
    })
json.dump(m, open("/verif/MANIFEST.json","w"), indent=1)
print("MANIFEST.json written:", len(m["checks"]), "checks,", len(m["not_applicable"]), "not claimed")
