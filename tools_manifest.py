#!/usr/bin/env python3
"""Regenerates MANIFEST.json from the table below (kept valid at all times)."""
import json, subprocess
claimed = {
 "C01": ("exploration", "Seeded search over (configuration, key set, call history) with the map reference model checked on every return value, all store code real on the simulated disk. This property has no schedule or fault dimension; what simulation adds over the tests is the adversarial key/config generator, the model oracle on every call, shrinking, and a disk cheap enough to roll files on every record.", "4/C01",
         "Sampling, not enumeration. Trusts the source transform, simos fidelity to package os, and the map model.",
         "deterministic simulation: seeded history/configuration search vs map reference model"),
}
claimed.update({
 "C03": ("fault_enumeration", "Every mutating file operation of a generated history (flush, index GC, primary GC, freelist hand-over, Close, Open, reopen) is a crash point, plus every sampled byte-prefix of each appended write and nested crashes during recovery; each image is booted in a fresh simulated process: open must succeed, every key must read as its last-flushed or a later acknowledged/in-flight state with Get/Has/GetSize agreeing, and the recovered store is driven on through ops, flush, fsck, two GC cycles of each kind and a reopen. Quick samples <=24 images per history and triages every other crash image with the independent fsck (booting what looks wrong); thorough enumerates all crash points of each history. 40% of multihash histories run the store's own flusher and collectors on short simulated intervals during the forward run (random scheduler with preemption, site-directed stalls or per-operation jitter), so crash points land inside background commits and GC cycles.", "4/C03",
         "Process-crash model only (written data survives); file-operation granularity; histories sampled. Trusts transform, simos fidelity and the admissibility oracle.",
         "deterministic simulation with crash-point / torn-write fault enumeration vs recovery-admissibility oracle"),
 "C04": ("exploration", "Seeded histories with index-GC and primary-GC cycles interleaved at arbitrary positions (unflushed data, scan-free on/off, low-use thresholds 0..101, cycles interrupted after n context checks and resumed) with the map model checked on every later call, iteration and reopen; panics are violations.", "4/C04",
         "Sampling of histories; sequential (concurrent GC is C06). GC cycles that return an error are counted but are not content changes.",
         "deterministic simulation: seeded GC-interleaved histories vs map reference model"),
 "C07": ("exploration", "An independent parser of header, index log, bucket table / snapshot, primary and freelist files checks the stated invariant literally at every quiescent checkpoint (after each Flush and Close) of generated histories, in two modes (table rebuilt by log scan; live table or snapshot), and that both modes and the model agree on the contents.", "4/C07",
         "Formats re-implemented from DESIGN.md Appendix D; quiescent states are sampled, not enumerated.",
         "deterministic simulation: independent fsck oracle over every quiescent disk image reached"),
})
claimed.update({
 "C02": ("exploration", "Generated histories (incl. GC cycles, roll-over) with Close/reopen at arbitrary positions; at each one Close must return nil, a second Close must return nil and change no file, and the closed image is opened three ways (bucket snapshot kept / deleted / damaged): each fork must equal the map model (all keys + iteration) and all forks must resolve every bucket to byte-identical record lists.", "4/C02",
         "Sampling of histories and reopen positions; clean Close only.",
         "deterministic simulation: three-way reopen forks of every closed image vs map model and vs each other"),
 "C05": ("exploration", "2-4 client tasks + flusher (+ explicit Flush client) on keys concentrated in 1-2 buckets; the seeded scheduler decides every interleaving at lock, channel, clock and file-system operations under several strategies; every error other than key-exists in immutable mode is a violation; the recorded history plus a final read-back is checked per key with porcupine against the register/map model.", "4/C05",
         "Schedules sampled, not enumerated; yield points are synchronisation/IO operations; porcupine timeouts are inconclusive, never reported.",
         "deterministic simulation: seeded schedule search + porcupine linearizability vs map model"),
 "C06": ("exploration", "As C05 on the multihash primary with tiny files plus index-GC and primary-GC tasks (explicit cycles) or the store's own background collectors with time limits, and stalled disk operations; no call may fail, no task may panic, history + final read-back must be linearizable.", "4/C06",
         "As C05. Two cycles of the same collector are never run at once.",
         "deterministic simulation: seeded schedule search with concurrent GC + porcupine linearizability"),
 "C12": ("exploration", "Bursting writers against a tiny burst rate with a finite measured flush rate; bounded liveness checked after every scheduler step: no writer may still be blocked at the flush-notice receive once the periodic flusher has completed 3 flush calls since the wait began; deadlock is the same violation. Single-writer-no-other-traffic is a dedicated class.", "4/C12",
         "Bounded liveness (3 completed flusher iterations), no faults; schedules sampled with PCT/sticky/random strategies.",
         "deterministic simulation: seeded schedule search + bounded-liveness watchdog on scheduler steps"),
 "C16": ("exploration", "C05/C06 style concurrent runs plus storage-size queries and file-cache resizing executed in the -race build of the simulator: scheduler hand-offs are hidden from ThreadSanitizer and the simulated sync primitives publish exactly the real primitives' happens-before edges, so TSan reports the accesses unordered by the application's own synchronisation on a serialised, replayable execution.", "4/C16",
         "TSan bounded history; fidelity of the published happens-before edges to package sync; workload coverage decides which access pairs are executed.",
         "deterministic simulation under the Go race detector (hidden-baton construction)"),
 "C17": ("exploration", "Close issued while flusher and background collectors are mid-cycle (stalled disk), then the virtual clock is advanced past 3x the largest interval: task table, handle ledger, op log after Close and reopen contents are checked; failing opens (size mismatches with the specific error, unsupported primary, invalid header, EIO inside OpenStore / inside a translation) must release everything; 20-50 open/close cycles return to baseline each time.", "4/C17",
         "Callers have returned before Close; descriptors are simulated-disk handles, goroutines are simulator tasks.",
         "deterministic simulation: resource ledger + task table after Close under seeded schedules, stalls and failing opens"),
})
claimed.update({
 "C08": ("exploration", "Seeded operation sequences on index.Index (real index, record lists, flush and roll-over code over the simulated disk, in-memory primary) for 2-10 equal-length keys over a 2-4 symbol alphabet in one or two buckets; location reference model for Get, and after every mutation the bucket's record list must be sorted, prefix-free, each prefix a prefix of its own key, one entry per present key, and differ from the previous list only in the addressed entry (an insertion may lengthen one neighbour).", "4/C08",
         "Random search, not exhaustive enumeration of the bounded space; no schedule/fault dimension.",
         "deterministic simulation: seeded index op sequences vs location model + structural record-list checks"),
 "C09": ("fault_enumeration", "Generated contents re-bucketed between sampled bit-size pairs (model comparison, continued history with fsck, and back), file-size mismatch opens must fail with the specific error types and leave contents intact, and every mutating file operation of the re-bucketing open is a crash point (torn appends included) whose image is reopened with the new and the old bit size: an open that succeeds must show every key. One known finding (KF-1, non-atomic directory swap) is reported and steered around by operation paths.", "4/C09",
         "Process-crash model; bit pairs sampled (24 rarely); known finding KF-1 window excluded from the search while its witness still fails.",
         "deterministic simulation with crash-point enumeration over the translating open"),
 "C10": ("fault_enumeration", "Legacy version-2 index / unversioned primary / legacy freelist files are written by the harness from a generated model (dead records deleted-marked, pending on the freelist or both; stale record lists; entries past the end of the primary) and upgraded by the real OpenStore with chunk sizes from one record per chunk to a single chunk and equal or different index bits; contents must equal the model, fsck clean, second open identical; every mutating op of the upgrading open is a crash point (torn appends, nested crash) and the open that finally completes must show the model. Two known findings (KF-2 remap marker order, KF-3 translate swap) are reported and steered around.", "4/C10",
         "Process-crash model; past-the-end entries are a crash-free class; known-finding windows excluded while their witnesses fail.",
         "deterministic simulation with crash-point enumeration over the upgrading open + harness-written legacy formats"),
 "C11": ("exploration", "Histories that end with chosen non-current primary files holding no live data (or below a low-use threshold), then bounded rounds of (GC cycle, Flush): every targeted file must be zero-length or unlinked, the oldest unlinked with the header advanced, unreferenced index files emptied, GC errors are violations, StorageSize never grows in non-relocating cycles, primary growth bounded by relocated bytes, and repeated rounds reach and keep a fixed point. A background class leaves the reopened store idle with its own collectors and flusher: the same files must be released within a bounded number of GC intervals of simulated time and the files must then stop changing.", "4/C11",
         "Bounds are generous finite constants; visited set starts empty.",
         "deterministic simulation: bounded-progress, conservation and fixed-point checks over GC rounds"),
 "C13": ("exploration", "Freelist ledger: expected multiset of superseded locations (from Index.Get before/after every call and GC cycle) must equal freelist file + every batch captured at the hand-over rename, nothing twice, no current location recorded; sequential histories with relocation, interrupted cycles and clean restarts, and concurrent disjoint-key writers + flusher + GC hand-over hammering; with a relocating GC under the writers the structural form is checked (nothing recorded twice, no current location recorded, every intact unreferenced primary record is recorded). A crash class crashes histories with frequent primary GC cycles at every file operation on the freelist file and its hand-over file: entries durable at the crash must be applied by the GC cycles after recovery.", "4/C13",
         "Entries that were only pooled (not yet written) at a crash are outside the crash class: the store has no journal. Concurrent class uses disjoint key sets; the exact multiset comparison needs relocation disabled (60% of concurrent cases), the other 40% use the structural check.",
         "deterministic simulation: conservation ledger over freelist file and captured hand-over batches"),
 "C14": ("exploration", "1-3 tasks drive a bare FileCache over the simulated disk with Open/Close/use/Remove/Clear/SetCacheSize(0..3)/Len over 1-3 names; invariants from the cache's white-box state and the disk's handle ledger: lent handles open and readable, open handles cached or lent, refs equal references lent out, no double close, no use after close, descriptors <= capacity + lent.", "4/C14",
         "Seeded sampling of sequences (<= 26 ops), not exhaustive.",
         "deterministic simulation: handle ledger + white-box invariants under seeded sequences and schedules"),
 "C15": ("exploration", "Seeded blockstore call sequences (Put/PutMany/Get/Has/GetSize/DeleteBlock/HashOnRead/reopen) over blocks of all sizes, three hash functions and CID variants sharing a multihash, with cancelled contexts (no side effects on files), flipped stored bytes and mismatching blocks, against a multihash->bytes model incl. not-found and hash-on-read semantics.", "4/C15",
         "One task; blocks are real hashes so bucket sharing comes from small index sizes.",
         "deterministic simulation: seeded blockstore sequences with cancel/flip faults vs reference model"),
})
pending = {}
for i in range(1,18):
    pid = "C%02d" % i
    if pid not in claimed:
        pending[pid] = "check under construction in this session (engine not yet registered); will be claimed once its check passes on the unchanged tree"
m = {
 "version": 1,
 "setup_cmd": "bin/verif setup",
 "hooks": {
   "guard": "verif",
   "enable": "go build -tags verif, with the repository's non-test sources passed through bin/simrewrite (go build -overlay) so that os/sync/time/context, goroutines, channels, select and map iteration run on the simulator in /verif/sim",
   "baseline_off_cmd": "cd /repo && GOFLAGS=-mod=mod GOPROXY=off go test -vet=off -count=1 -timeout 25m ./...",
   "source_commits": ["d4b3514"],
   "add_only": True
 },
 "engines": [
   {"name": "simcheck", "path": "sim/cmd/simcheck", "serves_properties": sorted(claimed), "kind_free_text": "deterministic simulator (seeded scheduler, virtual clock, simulated disk with fault injection) running the real store code rebuilt from /repo through a source-to-source transform"}
 ],
 "checks": [],
 "not_applicable": [{"property_id": k, "reason": v} for k, v in sorted(pending.items())],
 "notes": "All checks: bin/verif check <ID> <tier>. Exit 0 held / 1 VIOLATION / 2 infrastructure. VERIF_SEED honoured (default 1); VERIF_BUDGET_S overrides the wall-clock budget; replay with bin/verif replay <file>. Known findings: KNOWN_FINDINGS.txt."
}
for pid,(lvl,text,ref,note,tech) in sorted(claimed.items()):
    m["checks"].append({
      "property_id": pid,
      "quick_cmd": "bin/verif check %s quick" % pid,
      "thorough_cmd": "bin/verif check %s thorough" % pid,
      "evidence_file": "/verif/evidence/%s.json" % pid,
      "replay_cmd_template": "bin/verif replay {path}",
      "engine": "simcheck",
      "level_claimed": {"category": lvl, "text": text, "design_ref": ref},
      "level_note": note,
      "technique": tech,
    })
json.dump(m, open("/verif/MANIFEST.json","w"), indent=1)
print("MANIFEST.json written:", len(m["checks"]), "checks,", len(m["not_applicable"]), "not claimed")
