// simrewrite: mechanical source-to-source transform of a Go module so that it
// runs under the deterministic simulator in verif/sim.
//
//   - imports of os / sync / time / context are redirected to API-compatible
//     simulator packages (simos / simsync / simtime / simctx);
//   - go statements, channel operations, select statements, close() and
//     range-over-map / range-over-channel loops are routed through simrt so that
//     the simulator's scheduler decides every interleaving, every select choice and
//     every map iteration order.
//
// The module itself is never modified: rewritten copies are written to -out
// together with an overlay.json usable with `go build -overlay`.
package main

import (
	"bytes"
	"encoding/json"
	"flag"
	"fmt"
	"go/ast"
	"go/format"
	"go/parser"
	"go/token"
	"go/types"
	"os"
	"path/filepath"
	"sort"
	"strconv"
	"strings"

	"golang.org/x/tools/go/ast/astutil"
	"golang.org/x/tools/go/packages"
)

const simrtPath = "verif/sim/simrt"
const simrtName = "_simrt"

var importSwap = map[string]string{
	"os":      "verif/sim/simos",
	"sync":    "verif/sim/simsync",
	"time":    "verif/sim/simtime",
	"context": "verif/sim/simctx",
}

// imports that would let rewritten code reach the real environment behind the
// simulator's back; their presence is an infrastructure error (exit 2), never
// a property violation.
var forbiddenImports = map[string]bool{
	"os/exec":   true,
	"os/signal": true,
	"io/ioutil": true,
	"syscall":   true,
	"net":       true,
}

func main() {
	src := flag.String("src", "/repo", "module directory to transform")
	out := flag.String("out", "", "output directory for rewritten files and overlay.json")
	tags := flag.String("tags", "verif", "build tags")
	withTests := flag.Bool("tests", false, "also rewrite _test.go files")
	flag.Parse()
	if *out == "" {
		fmt.Fprintln(os.Stderr, "simrewrite: -out required")
		os.Exit(2)
	}
	absSrc, err := filepath.Abs(*src)
	if err != nil {
		fatal(err)
	}
	cfg := &packages.Config{
		Mode: packages.NeedName | packages.NeedFiles | packages.NeedCompiledGoFiles | packages.NeedSyntax |
			packages.NeedTypes | packages.NeedTypesInfo | packages.NeedImports | packages.NeedDeps | packages.NeedModule,
		Dir:        absSrc,
		BuildFlags: []string{"-tags=" + *tags},
		Tests:      *withTests,
		Env:        append(os.Environ(), "GOFLAGS=-mod=mod", "GOPROXY=off", "GOSUMDB=off"),
	}
	pkgs, err := packages.Load(cfg, "./...")
	if err != nil {
		fatal(err)
	}
	overlay := map[string]string{}
	stats := map[string]int{}
	nerr := 0
	seenFile := map[string]bool{}
	sort.Slice(pkgs, func(i, j int) bool { return pkgs[i].ID < pkgs[j].ID })
	for _, pkg := range pkgs {
		for _, e := range pkg.Errors {
			fmt.Fprintf(os.Stderr, "simrewrite: load error in %s: %v\n", pkg.PkgPath, e)
			nerr++
		}
		if pkg.Module == nil || !pkg.Module.Main {
			continue
		}
		for i, f := range pkg.Syntax {
			name := pkg.CompiledGoFiles[i]
			if !strings.HasPrefix(name, absSrc+string(filepath.Separator)) || !strings.HasSuffix(name, ".go") {
				continue
			}
			if seenFile[name] {
				continue
			}
			seenFile[name] = true
			rw := &rewriter{pkg: pkg, fset: pkg.Fset, file: f, stats: stats}
			changed, err := rw.rewrite()
			if err != nil {
				fmt.Fprintf(os.Stderr, "simrewrite: %s: %v\n", name, err)
				nerr++
				continue
			}
			if !changed {
				continue
			}
			srcBytes, err := render(pkg.Fset, f)
			if err != nil {
				fmt.Fprintf(os.Stderr, "simrewrite: %s: render: %v\n", name, err)
				nerr++
				continue
			}
			rel, _ := filepath.Rel(absSrc, name)
			dst := filepath.Join(*out, rel)
			if err := os.MkdirAll(filepath.Dir(dst), 0o755); err != nil {
				fatal(err)
			}
			if err := os.WriteFile(dst, srcBytes, 0o644); err != nil {
				fatal(err)
			}
			overlay[name] = dst
		}
	}
	if nerr != 0 {
		fmt.Fprintf(os.Stderr, "simrewrite: %d error(s)\n", nerr)
		os.Exit(2)
	}
	ov, _ := json.MarshalIndent(map[string]any{"Replace": overlay}, "", " ")
	if err := os.WriteFile(filepath.Join(*out, "overlay.json"), ov, 0o644); err != nil {
		fatal(err)
	}
	keys := make([]string, 0, len(stats))
	for k := range stats {
		keys = append(keys, k)
	}
	sort.Strings(keys)
	var sb strings.Builder
	for _, k := range keys {
		fmt.Fprintf(&sb, " %s=%d", k, stats[k])
	}
	fmt.Printf("simrewrite: %d files rewritten;%s\n", len(overlay), sb.String())
}

func fatal(err error) {
	fmt.Fprintln(os.Stderr, "simrewrite:", err)
	os.Exit(2)
}

func render(fset *token.FileSet, f *ast.File) ([]byte, error) {
	// Record the original line of every top-level declaration, then drop all
	// comments after the package clause (new nodes carry no positions, so
	// comments would be scattered into illegal places) while keeping compiler
	// directives attached to declarations.
	origLine := make([]int, len(f.Decls))
	origFile := fset.Position(f.Package).Filename
	directives := make([][]string, len(f.Decls))
	for i, d := range f.Decls {
		origLine[i] = fset.Position(d.Pos()).Line
		var doc *ast.CommentGroup
		switch d := d.(type) {
		case *ast.FuncDecl:
			doc = d.Doc
			d.Doc = nil
		case *ast.GenDecl:
			doc = d.Doc
			d.Doc = nil
		}
		if doc != nil {
			for _, c := range doc.List {
				if strings.HasPrefix(c.Text, "//go:") {
					directives[i] = append(directives[i], c.Text)
				}
			}
		}
	}
	var keep []*ast.CommentGroup
	for _, cg := range f.Comments {
		if cg.End() < f.Package {
			keep = append(keep, cg)
		}
	}
	f.Comments = keep
	var buf bytes.Buffer
	if err := format.Node(&buf, fset, f); err != nil {
		return nil, err
	}
	// Re-parse the output to find where each declaration landed and prefix it
	// with a //line directive so that stack traces and sites name original lines.
	ofset := token.NewFileSet()
	of, err := parser.ParseFile(ofset, "x.go", buf.Bytes(), 0)
	if err != nil {
		return nil, err
	}
	if len(of.Decls) != len(f.Decls) {
		return buf.Bytes(), nil
	}
	lines := strings.Split(buf.String(), "\n")
	for i := len(of.Decls) - 1; i >= 0; i-- {
		at := ofset.Position(of.Decls[i].Pos()).Line - 1 // 0-based index of decl's first line
		ins := append([]string{}, directives[i]...)
		ins = append([]string{fmt.Sprintf("//line %s:%d", origFile, origLine[i])}, ins...)
		// directives must immediately precede the declaration; //line goes first
		lines = append(lines[:at], append(ins, lines[at:]...)...)
	}
	return []byte(strings.Join(lines, "\n")), nil
}

type rewriter struct {
	pkg     *packages.Package
	fset    *token.FileSet
	file    *ast.File
	stats   map[string]int
	tmp     int
	needRT  bool
	changed bool
	skip    map[ast.Node]bool
	// type information captured before children are rewritten
	rangeKind map[*ast.RangeStmt]string // "map" | "chan"
	err       error
}

func (rw *rewriter) fresh(prefix string) *ast.Ident {
	rw.tmp++
	return ast.NewIdent("_sim_" + prefix + strconv.Itoa(rw.tmp))
}

func (rw *rewriter) rt(name string) ast.Expr {
	rw.needRT = true
	return &ast.SelectorExpr{X: ast.NewIdent(simrtName), Sel: ast.NewIdent(name)}
}

func (rw *rewriter) call(name string, args ...ast.Expr) *ast.CallExpr {
	return &ast.CallExpr{Fun: rw.rt(name), Args: args}
}

func (rw *rewriter) site(n ast.Node) ast.Expr {
	p := rw.fset.Position(n.Pos())
	fn := rw.enclosingFunc(n.Pos())
	return &ast.BasicLit{Kind: token.STRING, Value: strconv.Quote(fmt.Sprintf("%s:%d:%s", shortFile(p.Filename), p.Line, fn))}
}

// enclosingFunc names the top-level function containing pos ("Recv.Method" or "Func").
func (rw *rewriter) enclosingFunc(pos token.Pos) string {
	for _, d := range rw.file.Decls {
		fd, ok := d.(*ast.FuncDecl)
		if !ok || fd.Body == nil || pos < fd.Pos() || pos > fd.End() {
			continue
		}
		name := fd.Name.Name
		if fd.Recv != nil && len(fd.Recv.List) > 0 {
			t := fd.Recv.List[0].Type
			if st, ok := t.(*ast.StarExpr); ok {
				t = st.X
			}
			if id, ok := t.(*ast.Ident); ok {
				name = id.Name + "." + name
			}
		}
		return name
	}
	return "?"
}

func shortFile(name string) string {
	parts := strings.Split(filepath.ToSlash(name), "/")
	if len(parts) > 2 {
		parts = parts[len(parts)-2:]
	}
	return strings.Join(parts, "/")
}

func (rw *rewriter) rewrite() (bool, error) {
	rw.skip = map[ast.Node]bool{}
	rw.rangeKind = map[*ast.RangeStmt]string{}

	// 1. imports
	for _, imp := range rw.file.Imports {
		path, _ := strconv.Unquote(imp.Path.Value)
		if forbiddenImports[path] {
			return false, fmt.Errorf("import %q is not supported under simulation", path)
		}
		if to, ok := importSwap[path]; ok {
			if imp.Name == nil {
				imp.Name = ast.NewIdent(filepath.Base(path))
			}
			imp.Path.Value = strconv.Quote(to)
			imp.Path.ValuePos = token.NoPos
			rw.changed = true
			rw.stats["import:"+path]++
		}
	}

	// 2. statements and expressions
	pre := func(c *astutil.Cursor) bool {
		switch n := c.Node().(type) {
		case *ast.CommClause:
			// the communication of a select case is handled by the select rewrite
			switch s := n.Comm.(type) {
			case *ast.SendStmt:
				rw.skip[s] = true
			case *ast.ExprStmt:
				rw.skip[unparen(s.X)] = true
			case *ast.AssignStmt:
				if len(s.Rhs) == 1 {
					rw.skip[unparen(s.Rhs[0])] = true
				}
			}
		case *ast.RangeStmt:
			if t := rw.pkg.TypesInfo.TypeOf(n.X); t != nil {
				switch t.Underlying().(type) {
				case *types.Map:
					mt := t.Underlying().(*types.Map)
					if b, ok := mt.Key().Underlying().(*types.Basic); ok && b.Info()&types.IsOrdered != 0 {
						rw.rangeKind[n] = "map"
					} else {
						// keys without a total order cannot be iterated deterministically;
						// left as is (reported in the statistics)
						rw.stats["range-map-unordered-key"]++
					}
				case *types.Chan:
					rw.rangeKind[n] = "chan"
				}
			}
		}
		return true
	}
	post := func(c *astutil.Cursor) bool {
		if rw.err != nil {
			return false
		}
		n := c.Node()
		if n == nil || rw.skip[n] {
			return true
		}
		switch n := n.(type) {
		case *ast.GoStmt:
			c.Replace(rw.goStmt(n))
		case *ast.SendStmt:
			c.Replace(&ast.ExprStmt{X: rw.call("Send", rw.site(n), n.Chan, n.Value)})
			rw.note("send")
		case *ast.UnaryExpr:
			if n.Op == token.ARROW {
				fn := "Recv"
				switch p := c.Parent().(type) {
				case *ast.AssignStmt:
					if len(p.Lhs) == 2 && len(p.Rhs) == 1 {
						fn = "Recv2"
					}
				case *ast.ValueSpec:
					if len(p.Names) == 2 && len(p.Values) == 1 {
						fn = "Recv2"
					}
				}
				c.Replace(rw.call(fn, rw.site(n), n.X))
				rw.note("recv")
			}
		case *ast.CallExpr:
			if id, ok := unparen(n.Fun).(*ast.Ident); ok && id.Name == "close" && len(n.Args) == 1 {
				if _, isBuiltin := rw.pkg.TypesInfo.Uses[id].(*types.Builtin); isBuiltin {
					c.Replace(rw.call("Close", rw.site(n), n.Args[0]))
					rw.note("close")
				}
			}
		case *ast.SelectStmt:
			if lab, ok := c.Parent().(*ast.LabeledStmt); ok {
				_ = lab // handled when the LabeledStmt itself is visited
				return true
			}
			c.Replace(rw.selectStmt(n, nil))
		case *ast.RangeStmt:
			if _, ok := c.Parent().(*ast.LabeledStmt); ok {
				return true
			}
			if r := rw.rangeStmt(n, nil); r != nil {
				c.Replace(r)
			}
		case *ast.LabeledStmt:
			switch s := n.Stmt.(type) {
			case *ast.SelectStmt:
				c.Replace(rw.selectStmt(s, n.Label))
			case *ast.RangeStmt:
				if r := rw.rangeStmt(s, n.Label); r != nil {
					c.Replace(r)
				}
			}
		}
		return true
	}
	astutil.Apply(rw.file, pre, post)
	if rw.err != nil {
		return false, rw.err
	}
	if rw.needRT {
		astutil.AddNamedImport(rw.fset, rw.file, simrtName, simrtPath)
	}
	return rw.changed, nil
}

func (rw *rewriter) note(kind string) {
	rw.changed = true
	rw.stats[kind]++
}

func unparen(e ast.Expr) ast.Expr {
	for {
		p, ok := e.(*ast.ParenExpr)
		if !ok {
			return e
		}
		e = p.X
	}
}

func define(lhs ast.Expr, rhs ast.Expr) ast.Stmt {
	return &ast.AssignStmt{Lhs: []ast.Expr{lhs}, Tok: token.DEFINE, Rhs: []ast.Expr{rhs}}
}

// go f(a, b...)  =>  { _f := f; _a := a; _b := b; simrt.Go(site, func() { _f(_a, _b...) }) }
func (rw *rewriter) goStmt(n *ast.GoStmt) ast.Stmt {
	rw.note("go")
	var stmts []ast.Stmt
	call := n.Call
	fun := call.Fun
	if _, isLit := unparen(fun).(*ast.FuncLit); !isLit {
		f := rw.fresh("f")
		stmts = append(stmts, define(f, fun))
		fun = f
	}
	args := make([]ast.Expr, len(call.Args))
	for i, a := range call.Args {
		tv, ok := rw.pkg.TypesInfo.Types[a]
		if ok && (tv.Value != nil || tv.IsNil()) {
			args[i] = a // constants and nil are passed literally
			continue
		}
		t := rw.fresh("a")
		stmts = append(stmts, define(t, a))
		args[i] = t
	}
	inner := &ast.CallExpr{Fun: fun, Args: args, Ellipsis: call.Ellipsis}
	lit := &ast.FuncLit{
		Type: &ast.FuncType{Params: &ast.FieldList{}},
		Body: &ast.BlockStmt{List: []ast.Stmt{&ast.ExprStmt{X: inner}}},
	}
	stmts = append(stmts, &ast.ExprStmt{X: rw.call("Go", rw.site(n), lit)})
	return &ast.BlockStmt{List: stmts}
}

func (rw *rewriter) selectStmt(n *ast.SelectStmt, label *ast.Ident) ast.Stmt {
	rw.note("select")
	var stmts []ast.Stmt
	var caseArgs []ast.Expr
	hasDefault := false
	sw := &ast.SwitchStmt{Body: &ast.BlockStmt{}}
	idx := 0
	for _, cl := range n.Body.List {
		cc := cl.(*ast.CommClause)
		if cc.Comm == nil {
			hasDefault = true
			sw.Body.List = append(sw.Body.List, &ast.CaseClause{List: nil, Body: cc.Body})
			continue
		}
		cv := rw.fresh("c")
		var prologue []ast.Stmt
		switch s := cc.Comm.(type) {
		case *ast.SendStmt:
			stmts = append(stmts, define(cv, rw.call("SendCase", s.Chan, s.Value)))
		case *ast.ExprStmt:
			u := unparen(s.X).(*ast.UnaryExpr)
			stmts = append(stmts, define(cv, rw.call("RecvCase", u.X)))
		case *ast.AssignStmt:
			u := unparen(s.Rhs[0]).(*ast.UnaryExpr)
			stmts = append(stmts, define(cv, rw.call("RecvCase", u.X)))
			rhs := []ast.Expr{&ast.SelectorExpr{X: cv, Sel: ast.NewIdent("Val")}}
			if len(s.Lhs) == 2 {
				rhs = append(rhs, &ast.SelectorExpr{X: cv, Sel: ast.NewIdent("Ok")})
			}
			prologue = append(prologue, &ast.AssignStmt{Lhs: s.Lhs, Tok: s.Tok, Rhs: rhs})
			if s.Tok == token.DEFINE {
				// avoid "declared and not used" for variables the body ignores
				for _, l := range s.Lhs {
					if id, ok := l.(*ast.Ident); ok && id.Name != "_" {
						prologue = append(prologue, &ast.AssignStmt{Lhs: []ast.Expr{ast.NewIdent("_")}, Tok: token.ASSIGN, Rhs: []ast.Expr{ast.NewIdent(id.Name)}})
					}
				}
			}
		default:
			rw.err = fmt.Errorf("unsupported select communication %T", s)
			return n
		}
		caseArgs = append(caseArgs, cv)
		body := append(prologue, cc.Body...)
		sw.Body.List = append(sw.Body.List, &ast.CaseClause{
			List: []ast.Expr{&ast.BasicLit{Kind: token.INT, Value: strconv.Itoa(idx)}},
			Body: body,
		})
		idx++
	}
	def := "false"
	if hasDefault {
		def = "true"
	}
	args := append([]ast.Expr{rw.site(n), ast.NewIdent(def)}, caseArgs...)
	sw.Tag = rw.call("Select", args...)
	var swStmt ast.Stmt = sw
	if label != nil {
		swStmt = &ast.LabeledStmt{Label: label, Stmt: sw}
	}
	stmts = append(stmts, swStmt)
	return &ast.BlockStmt{List: stmts}
}

func isBlank(e ast.Expr) bool {
	if e == nil {
		return true
	}
	id, ok := e.(*ast.Ident)
	return ok && id.Name == "_"
}

func (rw *rewriter) rangeStmt(n *ast.RangeStmt, label *ast.Ident) ast.Stmt {
	kind := rw.rangeKind[n]
	wrap := func(loop ast.Stmt, pre ...ast.Stmt) ast.Stmt {
		if label != nil {
			loop = &ast.LabeledStmt{Label: label, Stmt: loop}
		}
		return &ast.BlockStmt{List: append(pre, loop)}
	}
	switch kind {
	case "map":
		rw.note("range-map")
		m := rw.fresh("m")
		k := rw.fresh("k")
		var body []ast.Stmt
		if n.Tok == token.DEFINE || n.Tok == token.ILLEGAL {
			// v, ok := m[k]; if !ok { continue }
			ok := rw.fresh("ok")
			var vLhs ast.Expr = ast.NewIdent("_")
			if !isBlank(n.Value) {
				vLhs = n.Value
			}
			body = append(body,
				&ast.AssignStmt{Lhs: []ast.Expr{vLhs, ok}, Tok: token.DEFINE, Rhs: []ast.Expr{&ast.IndexExpr{X: m, Index: k}}},
				&ast.IfStmt{Cond: &ast.UnaryExpr{Op: token.NOT, X: ok}, Body: &ast.BlockStmt{List: []ast.Stmt{&ast.BranchStmt{Tok: token.CONTINUE}}}},
			)
			if !isBlank(n.Value) {
				body = append(body, &ast.AssignStmt{Lhs: []ast.Expr{ast.NewIdent("_")}, Tok: token.ASSIGN, Rhs: []ast.Expr{n.Value}})
			}
			if !isBlank(n.Key) {
				body = append(body, define(n.Key, k),
					&ast.AssignStmt{Lhs: []ast.Expr{ast.NewIdent("_")}, Tok: token.ASSIGN, Rhs: []ast.Expr{n.Key}})
			}
		} else { // ASSIGN form
			ok := rw.fresh("ok")
			tmpv := rw.fresh("v")
			body = append(body,
				&ast.AssignStmt{Lhs: []ast.Expr{tmpv, ok}, Tok: token.DEFINE, Rhs: []ast.Expr{&ast.IndexExpr{X: m, Index: k}}},
				&ast.IfStmt{Cond: &ast.UnaryExpr{Op: token.NOT, X: ok}, Body: &ast.BlockStmt{List: []ast.Stmt{&ast.BranchStmt{Tok: token.CONTINUE}}}},
				&ast.AssignStmt{Lhs: []ast.Expr{ast.NewIdent("_")}, Tok: token.ASSIGN, Rhs: []ast.Expr{tmpv}},
			)
			if !isBlank(n.Key) {
				body = append(body, &ast.AssignStmt{Lhs: []ast.Expr{n.Key}, Tok: token.ASSIGN, Rhs: []ast.Expr{k}})
			}
			if !isBlank(n.Value) {
				body = append(body, &ast.AssignStmt{Lhs: []ast.Expr{n.Value}, Tok: token.ASSIGN, Rhs: []ast.Expr{tmpv}})
			}
		}
		body = append(body, n.Body.List...)
		loop := &ast.RangeStmt{
			Key: ast.NewIdent("_"), Value: k, Tok: token.DEFINE,
			X:    rw.call("MapKeys", rw.site(n), m),
			Body: &ast.BlockStmt{List: body},
		}
		return wrap(loop, define(m, n.X))
	case "chan":
		rw.note("range-chan")
		ch := rw.fresh("ch")
		ok := rw.fresh("ok")
		var vLhs ast.Expr = ast.NewIdent("_")
		tok := token.DEFINE
		var extra []ast.Stmt
		if !isBlank(n.Key) {
			vLhs = n.Key
			if n.Tok == token.ASSIGN {
				// v, ok = recv needs ok declared; use a temp
				tmpv := rw.fresh("v")
				extra = append(extra, &ast.AssignStmt{Lhs: []ast.Expr{n.Key}, Tok: token.ASSIGN, Rhs: []ast.Expr{tmpv}})
				vLhs = tmpv
			} else {
				extra = append(extra, &ast.AssignStmt{Lhs: []ast.Expr{ast.NewIdent("_")}, Tok: token.ASSIGN, Rhs: []ast.Expr{n.Key}})
			}
		}
		body := []ast.Stmt{
			&ast.AssignStmt{Lhs: []ast.Expr{vLhs, ok}, Tok: tok, Rhs: []ast.Expr{rw.call("Recv2", rw.site(n), ch)}},
			&ast.IfStmt{Cond: &ast.UnaryExpr{Op: token.NOT, X: ok}, Body: &ast.BlockStmt{List: []ast.Stmt{&ast.BranchStmt{Tok: token.BREAK}}}},
		}
		body = append(body, extra...)
		body = append(body, n.Body.List...)
		loop := &ast.ForStmt{Body: &ast.BlockStmt{List: body}}
		return wrap(loop, define(ch, n.X))
	}
	return nil
}
