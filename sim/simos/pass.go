//go:build passthrough

// Pass-through variant of simos: plain aliases of package os. Used only to
// validate that the source transform preserves behaviour (the repository's own
// test suite is run on the transformed tree against these).
package simos

import (
	"io/fs"
	"os"
)

type (
	File      = os.File
	FileInfo  = fs.FileInfo
	FileMode  = fs.FileMode
	DirEntry  = fs.DirEntry
	PathError = fs.PathError
	LinkError = os.LinkError
)

const (
	O_RDONLY = os.O_RDONLY
	O_WRONLY = os.O_WRONLY
	O_RDWR   = os.O_RDWR
	O_APPEND = os.O_APPEND
	O_CREATE = os.O_CREATE
	O_EXCL   = os.O_EXCL
	O_SYNC   = os.O_SYNC
	O_TRUNC  = os.O_TRUNC
	ModeDir  = fs.ModeDir
	ModePerm = fs.ModePerm
)

var (
	ErrInvalid    = fs.ErrInvalid
	ErrPermission = fs.ErrPermission
	ErrExist      = fs.ErrExist
	ErrNotExist   = fs.ErrNotExist
	ErrClosed     = fs.ErrClosed

	Open         = os.Open
	Create       = os.Create
	OpenFile     = os.OpenFile
	Stat         = os.Stat
	Lstat        = os.Lstat
	Remove       = os.Remove
	RemoveAll    = os.RemoveAll
	Rename       = os.Rename
	Truncate     = os.Truncate
	Mkdir        = os.Mkdir
	MkdirAll     = os.MkdirAll
	MkdirTemp    = os.MkdirTemp
	CreateTemp   = os.CreateTemp
	ReadFile     = os.ReadFile
	WriteFile    = os.WriteFile
	ReadDir      = os.ReadDir
	IsNotExist   = os.IsNotExist
	IsExist      = os.IsExist
	IsPermission = os.IsPermission
	TempDir      = os.TempDir
	Getenv       = os.Getenv
	Exit         = os.Exit
)
