//go:build !passthrough

// Package simos is an API-compatible replacement of the parts of package os the
// store uses, backed by an in-memory file system owned by the simrt scheduler.
// Every call is a yield point, an op-log entry and a fault point.
package simos

import (
	"io"
	"io/fs"
	"path/filepath"
	"sort"
	"strings"
	"syscall"
	"time"

	"verif/sim/simrt"
	"verif/sim/simtime"
)

// OpKind enumerates file-system operations for the op log and fault hooks.
type OpKind uint8

const (
	OpOpen      OpKind = iota
	OpCreate           // open that creates a new file (mutating)
	OpTruncOpen        // open with O_TRUNC on an existing non-empty file (mutating)
	OpClose
	OpRead
	OpReadAt
	OpWrite    // mutating
	OpWriteAt  // mutating
	OpTruncate // mutating
	OpSeek
	OpStat
	OpSync
	OpRename // mutating
	OpRemove // mutating
	OpMkdir  // mutating
	OpReadDir
)

var opNames = [...]string{"open", "create", "truncopen", "close", "read", "readat", "write", "writeat",
	"truncate", "seek", "stat", "sync", "rename", "remove", "mkdir", "readdir"}

func (k OpKind) String() string { return opNames[k] }

// Mutating reports whether the op kind changes the durable image.
func (k OpKind) Mutating() bool {
	switch k {
	case OpCreate, OpTruncOpen, OpWrite, OpWriteAt, OpTruncate, OpRename, OpRemove, OpMkdir:
		return true
	}
	return false
}

// OpRec is one op-log entry.
type OpRec struct {
	Seq   int
	Mut   int // index among mutating ops (only if Kind.Mutating()), else -1
	Task  int
	Kind  OpKind
	Path  string
	Path2 string // rename target
	Off   int64
	N     int
	PC    uintptr
	Err   bool
	Now   int64
}

// Action tells the file system what to do with an op (fault injection).
type Action struct {
	Crash bool  // the process dies before the op is applied
	Torn  int   // >0 with Crash: for writes, this many bytes reach the file first
	Err   error // the op fails with this error instead of being applied
}

type inode struct {
	data  []byte
	dir   bool
	gen   uint64 // snapshot generation at which data was last made private
	mtime int64
	nopen int
}

// FS is the simulated file system of one world.
type FS struct {
	nodes     map[string]*inode
	snapGen   uint64
	tempSeq   int
	handleSeq int

	Log      []OpRec
	KeepLog  bool
	seq      int
	MutCount int

	// Hook, if set, is consulted on the scheduler goroutine before every op.
	Hook func(fs *FS, op *OpRec, data []byte) Action

	// Latency, if set, returns the simulated duration of an op.
	Latency func(op *OpRec) int64

	open []*File // currently open handles (ledger)

	// Ledger
	HighWater     int
	DoubleClose   []string
	UseAfterClose []string
	Counts        [16]int
}

// NewFS returns an empty file system containing only "/".
func NewFS() *FS {
	f := &FS{nodes: map[string]*inode{}, snapGen: 1}
	f.nodes["/"] = &inode{dir: true, gen: 1}
	return f
}

func clean(p string) string {
	if p == "" {
		return ""
	}
	if !strings.HasPrefix(p, "/") {
		p = "/cwd/" + p
	}
	return filepath.Clean(p)
}

// Image is an immutable snapshot of a file system.
type Image struct {
	Files map[string][]byte
	Dirs  map[string]bool
}

// Snapshot captures the current contents copy-on-write.
func (f *FS) Snapshot() *Image {
	img := &Image{Files: make(map[string][]byte, len(f.nodes)), Dirs: map[string]bool{}}
	for p, n := range f.nodes {
		if n.dir {
			img.Dirs[p] = true
		} else {
			img.Files[p] = n.data[:len(n.data):len(n.data)]
		}
	}
	f.snapGen++
	return img
}

// Boot returns a fresh file system initialised from img. The image stays usable.
func Boot(img *Image) *FS {
	f := NewFS()
	for d := range img.Dirs {
		f.nodes[d] = &inode{dir: true}
	}
	for p, data := range img.Files {
		f.nodes[p] = &inode{data: data[:len(data):len(data)], gen: 0}
	}
	f.snapGen = 1
	return f
}

// Restore replaces the contents of the file system with img. No handle may be
// open (harness-side; not a yield point).
func (f *FS) Restore(img *Image) {
	if len(f.open) != 0 {
		panic("simos: Restore with open handles")
	}
	f.nodes = map[string]*inode{"/": {dir: true, gen: f.snapGen}}
	for d := range img.Dirs {
		f.nodes[d] = &inode{dir: true}
	}
	for p, data := range img.Files {
		f.nodes[p] = &inode{data: data[:len(data):len(data)], gen: 0}
	}
}

// Clone deep-copies an image (for harness-side mutation such as byte flips).
func (img *Image) Clone() *Image {
	c := &Image{Files: make(map[string][]byte, len(img.Files)), Dirs: map[string]bool{}}
	for p, d := range img.Files {
		c.Files[p] = append([]byte(nil), d...)
	}
	for d := range img.Dirs {
		c.Dirs[d] = true
	}
	return c
}

// Hash returns a content hash of the image (names and bytes).
func (img *Image) Hash() uint64 {
	names := make([]string, 0, len(img.Files)+len(img.Dirs))
	for p := range img.Files {
		names = append(names, p)
	}
	for p := range img.Dirs {
		names = append(names, p+"/")
	}
	sort.Strings(names)
	h := uint64(14695981039346656037)
	mix := func(b byte) { h = (h ^ uint64(b)) * 1099511628211 }
	for _, p := range names {
		for i := 0; i < len(p); i++ {
			mix(p[i])
		}
		mix(0)
		if d, ok := img.Files[p]; ok {
			n := len(d)
			for i := 0; i < 8; i++ {
				mix(byte(n >> (8 * i)))
			}
			for _, b := range d {
				mix(b)
			}
		}
	}
	return h
}

// private makes n.data safe to modify in place.
func (f *FS) private(n *inode) {
	if n.gen < f.snapGen {
		n.data = append(make([]byte, 0, len(n.data)+64), n.data...)
		n.gen = f.snapGen
	}
}

// --- direct (harness-side) accessors; not yield points ---

// ReadFileDirect returns the bytes of a file (shared; do not modify).
func (f *FS) ReadFileDirect(p string) ([]byte, bool) {
	n, ok := f.nodes[clean(p)]
	if !ok || n.dir {
		return nil, false
	}
	return n.data, true
}

// WriteFileDirect creates or replaces a file.
func (f *FS) WriteFileDirect(p string, data []byte) {
	p = clean(p)
	f.mkdirAll(filepath.Dir(p))
	f.nodes[p] = &inode{data: append([]byte(nil), data...), gen: f.snapGen}
}

// RemoveDirect deletes a file if present.
func (f *FS) RemoveDirect(p string) { delete(f.nodes, clean(p)) }

// FileCount returns the number of regular files (scheduler side, no allocation).
func (f *FS) FileCount() int {
	n := 0
	for _, nd := range f.nodes {
		if !nd.dir {
			n++
		}
	}
	return n
}

// MkdirAllDirect creates directories.
func (f *FS) MkdirAllDirect(p string) { f.mkdirAll(clean(p)) }

// List returns all file paths (sorted).
func (f *FS) List() []string {
	var r []string
	for p, n := range f.nodes {
		if !n.dir {
			r = append(r, p)
		}
	}
	sort.Strings(r)
	return r
}

// Files returns the current contents of all files. The slices alias the file
// system's storage: valid only until the calling task continues.
func (f *FS) Files() map[string][]byte {
	out := make(map[string][]byte, len(f.nodes))
	for p, n := range f.nodes {
		if !n.dir {
			out[p] = n.data
		}
	}
	return out
}

// OpenHandles returns the names of handles that are open now.
func (f *FS) OpenHandles() []string {
	var r []string
	for _, h := range f.open {
		r = append(r, h.name)
	}
	return r
}

// OpenFiles returns the handles that are open now.
func (f *FS) OpenFiles() []*File { return append([]*File(nil), f.open...) }

// IsClosed reports whether the handle has been closed (harness-side).
func (f *File) IsClosed() bool { return f.closed }

// OpenHandleInfo describes open handles with their opening task and site.
func (f *FS) OpenHandleInfo() []string {
	var r []string
	for _, h := range f.open {
		r = append(r, h.name+" opened-by-task="+itoa(h.task)+" at "+simrt.SiteOf(h.pc))
	}
	return r
}

func itoa(i int) string {
	if i == 0 {
		return "0"
	}
	neg := i < 0
	if neg {
		i = -i
	}
	var b [20]byte
	p := len(b)
	for i > 0 {
		p--
		b[p] = byte('0' + i%10)
		i /= 10
	}
	if neg {
		p--
		b[p] = '-'
	}
	return string(b[p:])
}

func (f *FS) mkdirAll(p string) {
	for p != "/" && p != "." && p != "" {
		if _, ok := f.nodes[p]; ok {
			break
		}
		f.nodes[p] = &inode{dir: true, gen: f.snapGen}
		p = filepath.Dir(p)
	}
}

// --- op plumbing ---

func pathErr(op, path string, errno error) error {
	return &fs.PathError{Op: op, Path: path, Err: errno}
}

func cur() *FS {
	w := simrt.Current()
	if w == nil {
		return defaultFS
	}
	if w.FS == nil {
		w.FS = NewFS()
	}
	return w.FS.(*FS)
}

// defaultFS serves calls made outside any world (harness preparation).
var defaultFS = NewFS()

// Attach installs f as the file system of w.
func Attach(w *simrt.World, f *FS) { w.FS = f }

// do runs one file-system op as a yield point. apply runs on the scheduler
// goroutine; it returns whether the op failed.
func (f *FS) do(kind OpKind, path, path2 string, off int64, n int, data []byte, apply func(torn int) error) error {
	return f.doOff(kind, path, path2, off, nil, n, data, apply)
}

// doOff is do with the offset computed on the scheduler side (O_APPEND writes).
func (f *FS) doOff(kind OpKind, path, path2 string, off int64, effOff func() int64, n int, data []byte, apply func(torn int) error) error {
	var err error
	var lat int64
	w := simrt.Current()
	task := -1
	if w != nil && w.CurTask() != nil {
		task = w.CurTask().ID
	}
	op := &simrt.Op{Kind: kind.String()}
	op.Apply = func() {
		rec := OpRec{Seq: f.seq, Mut: -1, Task: task, Kind: kind, Path: path, Path2: path2, Off: off, N: n, PC: op.PC}
		if effOff != nil {
			rec.Off = effOff()
		}
		if w != nil {
			rec.Now = w.Now()
		}
		f.seq++
		f.Counts[kind]++
		if kind.Mutating() {
			rec.Mut = f.MutCount
			f.MutCount++
		}
		var act Action
		if f.Hook != nil {
			act = f.Hook(f, &rec, data)
		}
		switch {
		case act.Crash:
			if act.Torn > 0 && (kind == OpWrite || kind == OpWriteAt) {
				apply(act.Torn)
			}
			if f.KeepLog {
				f.Log = append(f.Log, rec)
			}
			if w != nil {
				w.Stop(simrt.OutCrash, "crash injected before "+kind.String()+" "+path)
			}
			return
		case act.Err != nil:
			err = act.Err
		default:
			err = apply(-1)
		}
		rec.Err = err != nil
		if f.KeepLog {
			f.Log = append(f.Log, rec)
		}
		if f.Latency != nil {
			lat = f.Latency(&rec)
		}
	}
	simrt.Yield(op)
	if lat > 0 {
		simrt.Sleep(lat)
	}
	return err
}

// --- package-level API ---

type (
	FileInfo  = fs.FileInfo
	FileMode  = fs.FileMode
	DirEntry  = fs.DirEntry
	PathError = fs.PathError
	LinkError = linkError
)

type linkError struct {
	Op  string
	Old string
	New string
	Err error
}

func (e *linkError) Error() string { return e.Op + " " + e.Old + " " + e.New + ": " + e.Err.Error() }
func (e *linkError) Unwrap() error { return e.Err }

const (
	O_RDONLY = syscall.O_RDONLY
	O_WRONLY = syscall.O_WRONLY
	O_RDWR   = syscall.O_RDWR
	O_APPEND = syscall.O_APPEND
	O_CREATE = syscall.O_CREAT
	O_EXCL   = syscall.O_EXCL
	O_SYNC   = syscall.O_SYNC
	O_TRUNC  = syscall.O_TRUNC

	ModeDir  = fs.ModeDir
	ModePerm = fs.ModePerm

	PathSeparator = '/'
	DevNull       = "/dev/null"

	SEEK_SET = 0
	SEEK_CUR = 1
	SEEK_END = 2
)

var (
	ErrInvalid          = fs.ErrInvalid
	ErrPermission       = fs.ErrPermission
	ErrExist            = fs.ErrExist
	ErrNotExist         = fs.ErrNotExist
	ErrClosed           = fs.ErrClosed
	ErrNoDeadline       = errNoDeadline
	ErrDeadlineExceeded = errDeadline
)

type simpleErr string

func (e simpleErr) Error() string { return string(e) }

const (
	errNoDeadline = simpleErr("file type does not support deadline")
	errDeadline   = simpleErr("i/o timeout")
)

func underlying(err error) error {
	switch e := err.(type) {
	case *fs.PathError:
		return e.Err
	case *linkError:
		return e.Err
	}
	return err
}

func IsNotExist(err error) bool {
	e := underlying(err)
	return e == syscall.ENOENT || e == fs.ErrNotExist
}
func IsExist(err error) bool {
	e := underlying(err)
	return e == syscall.EEXIST || e == syscall.ENOTEMPTY || e == fs.ErrExist
}
func IsPermission(err error) bool {
	e := underlying(err)
	return e == syscall.EACCES || e == syscall.EPERM || e == fs.ErrPermission
}
func IsTimeout(err error) bool { return false }

func Getenv(string) string            { return "" }
func LookupEnv(string) (string, bool) { return "", false }
func TempDir() string                 { return "/tmp" }
func Getpid() int                     { return 1 }
func Getwd() (string, error)          { return "/cwd", nil }

// File mirrors *os.File.
type File struct {
	fsys    *FS
	name    string // as given to open
	path    string // cleaned
	ino     *inode
	flag    int
	off     int64
	closed  bool
	id      int
	task    int
	pc      uintptr
	dirRead bool
}

func (f *File) Name() string { return f.name }

func Open(name string) (*File, error)   { return OpenFile(name, O_RDONLY, 0) }
func Create(name string) (*File, error) { return OpenFile(name, O_RDWR|O_CREATE|O_TRUNC, 0o666) }

func OpenFile(name string, flag int, perm FileMode) (*File, error) {
	fsys := cur()
	p := clean(name)
	var file *File
	// classify for the op log before applying (scheduler side does the real check)
	kind := OpOpen
	err := fsys.doOpen(&kind, name, p, flag, &file)
	if err != nil {
		return nil, err
	}
	return file, nil
}

func (f *FS) doOpen(kindp *OpKind, name, p string, flag int, out **File) error {
	w := simrt.Current()
	task := -1
	if w != nil && w.CurTask() != nil {
		task = w.CurTask().ID
	}
	var err error
	var lat int64
	op := &simrt.Op{Kind: "open"}
	op.Apply = func() {
		n, exists := f.nodes[p]
		kind := OpOpen
		if !exists && flag&O_CREATE != 0 {
			kind = OpCreate
		} else if exists && !n.dir && flag&O_TRUNC != 0 && len(n.data) > 0 {
			kind = OpTruncOpen
		}
		rec := OpRec{Seq: f.seq, Mut: -1, Task: task, Kind: kind, Path: p, Off: int64(flag), PC: op.PC}
		if w != nil {
			rec.Now = w.Now()
		}
		f.seq++
		f.Counts[kind]++
		if kind.Mutating() {
			rec.Mut = f.MutCount
			f.MutCount++
		}
		var act Action
		if f.Hook != nil {
			act = f.Hook(f, &rec, nil)
		}
		if act.Crash {
			if f.KeepLog {
				f.Log = append(f.Log, rec)
			}
			if w != nil {
				w.Stop(simrt.OutCrash, "crash injected before "+kind.String()+" "+p)
			}
			return
		}
		if act.Err != nil {
			err = pathErr("open", name, act.Err)
		} else {
			err = f.applyOpen(name, p, flag, task, op.PC, out)
		}
		rec.Err = err != nil
		if f.KeepLog {
			f.Log = append(f.Log, rec)
		}
		if f.Latency != nil {
			lat = f.Latency(&rec)
		}
	}
	simrt.Yield(op)
	if lat > 0 {
		simrt.Sleep(lat)
	}
	return err
}

func (f *FS) applyOpen(name, p string, flag, task int, pc uintptr, out **File) error {
	n, exists := f.nodes[p]
	if exists && flag&O_CREATE != 0 && flag&O_EXCL != 0 {
		return pathErr("open", name, syscall.EEXIST)
	}
	if !exists {
		if flag&O_CREATE == 0 {
			return pathErr("open", name, syscall.ENOENT)
		}
		parent, ok := f.nodes[filepath.Dir(p)]
		if !ok {
			return pathErr("open", name, syscall.ENOENT)
		}
		if !parent.dir {
			return pathErr("open", name, syscall.ENOTDIR)
		}
		n = &inode{gen: f.snapGen}
		f.nodes[p] = n
	} else if n.dir {
		if flag&(O_WRONLY|O_RDWR) != 0 {
			return pathErr("open", name, syscall.EISDIR)
		}
	} else if flag&O_TRUNC != 0 && flag&(O_WRONLY|O_RDWR) != 0 {
		n.data = n.data[:0:0]
		n.gen = f.snapGen
	}
	f.handleSeq++
	h := &File{fsys: f, name: name, path: p, ino: n, flag: flag, id: f.handleSeq, task: task, pc: pc}
	n.nopen++
	f.open = append(f.open, h)
	if len(f.open) > f.HighWater {
		f.HighWater = len(f.open)
	}
	*out = h
	return nil
}

func (f *File) checkOpen(opname string) error {
	if f == nil {
		return fs.ErrInvalid
	}
	if f.closed {
		f.fsys.UseAfterClose = append(f.fsys.UseAfterClose, opname+" "+f.name)
		return pathErr(opname, f.name, fs.ErrClosed)
	}
	return nil
}

func (f *File) Close() error {
	if f == nil {
		return fs.ErrInvalid
	}
	return f.fsys.do(OpClose, f.path, "", 0, 0, nil, func(int) error {
		if f.closed {
			f.fsys.DoubleClose = append(f.fsys.DoubleClose, f.name)
			return pathErr("close", f.name, fs.ErrClosed)
		}
		f.closed = true
		f.ino.nopen--
		for i, h := range f.fsys.open {
			if h == f {
				f.fsys.open = append(f.fsys.open[:i], f.fsys.open[i+1:]...)
				break
			}
		}
		return nil
	})
}

func (f *File) readable() bool { return f.flag&(O_WRONLY) == 0 }
func (f *File) writable() bool { return f.flag&(O_WRONLY|O_RDWR) != 0 }

func (f *File) ReadAt(b []byte, off int64) (int, error) {
	if f == nil {
		return 0, fs.ErrInvalid
	}
	var n int
	err := f.fsys.do(OpReadAt, f.path, "", off, len(b), nil, func(int) error {
		if e := f.checkOpen("read"); e != nil {
			return e
		}
		if off < 0 {
			return pathErr("readat", f.name, simpleErr("negative offset"))
		}
		if len(b) == 0 {
			return nil // the real ReadAt issues no system call for an empty buffer
		}
		if !f.readable() {
			return pathErr("read", f.name, syscall.EBADF)
		}
		if off < 0 {
			return pathErr("readat", f.name, simpleErr("negative offset"))
		}
		if f.ino.dir {
			return pathErr("read", f.name, syscall.EISDIR)
		}
		d := f.ino.data
		if off >= int64(len(d)) {
			if len(b) == 0 {
				return nil
			}
			return io.EOF
		}
		n = copy(b, d[off:])
		if n < len(b) {
			return io.EOF
		}
		return nil
	})
	return n, err
}

func (f *File) Read(b []byte) (int, error) {
	if f == nil {
		return 0, fs.ErrInvalid
	}
	var n int
	err := f.fsys.do(OpRead, f.path, "", f.off, len(b), nil, func(int) error {
		if e := f.checkOpen("read"); e != nil {
			return e
		}
		if len(b) == 0 {
			return nil
		}
		if !f.readable() {
			return pathErr("read", f.name, syscall.EBADF)
		}
		if f.ino.dir {
			return pathErr("read", f.name, syscall.EISDIR)
		}
		d := f.ino.data
		if f.off >= int64(len(d)) {
			if len(b) == 0 {
				return nil
			}
			return io.EOF
		}
		n = copy(b, d[f.off:])
		f.off += int64(n)
		return nil
	})
	return n, err
}

func (f *File) Write(b []byte) (int, error) {
	if f == nil {
		return 0, fs.ErrInvalid
	}
	var n int
	effOff := func() int64 {
		if f.flag&O_APPEND != 0 && !f.closed {
			return int64(len(f.ino.data))
		}
		return f.off
	}
	err := f.fsys.doOff(OpWrite, f.path, "", f.off, effOff, len(b), b, func(torn int) error {
		if e := f.checkOpen("write"); e != nil {
			return e
		}
		if !f.writable() {
			return pathErr("write", f.name, syscall.EBADF)
		}
		src := b
		if torn >= 0 && torn < len(src) {
			src = src[:torn]
		}
		at := f.off
		if f.flag&O_APPEND != 0 {
			at = int64(len(f.ino.data))
		}
		if len(src) == 0 {
			return nil // no effect, the offset stays where it was
		}
		f.fsys.writeAt(f.ino, src, at)
		f.off = at + int64(len(src))
		n = len(src)
		return nil
	})
	return n, err
}

func (f *File) WriteString(s string) (int, error) { return f.Write([]byte(s)) }

func (f *File) WriteAt(b []byte, off int64) (int, error) {
	if f == nil {
		return 0, fs.ErrInvalid
	}
	var n int
	err := f.fsys.do(OpWriteAt, f.path, "", off, len(b), b, func(torn int) error {
		if e := f.checkOpen("write"); e != nil {
			return e
		}
		if !f.writable() {
			return pathErr("write", f.name, syscall.EBADF)
		}
		if f.flag&O_APPEND != 0 {
			return simpleErr("os: invalid use of WriteAt on file opened with O_APPEND")
		}
		if off < 0 {
			return pathErr("writeat", f.name, simpleErr("negative offset"))
		}
		src := b
		if torn >= 0 && torn < len(src) {
			src = src[:torn]
		}
		f.fsys.writeAt(f.ino, src, off)
		n = len(src)
		return nil
	})
	return n, err
}

func (fsys *FS) writeAt(n *inode, src []byte, at int64) {
	if len(src) == 0 {
		return // a zero-length write never extends the file
	}
	if w := simrt.Current(); w != nil {
		n.mtime = w.Now()
	}
	end := at + int64(len(src))
	if at == int64(len(n.data)) {
		// appending never disturbs a snapshot: its view is clipped to its length
		n.data = append(n.data, src...)
		return
	}
	fsys.private(n)
	if end > int64(len(n.data)) {
		if at > int64(len(n.data)) {
			n.data = append(n.data, make([]byte, at-int64(len(n.data)))...)
		}
		n.data = append(n.data[:at], src...)
		return
	}
	copy(n.data[at:], src)
}

func (f *File) Seek(offset int64, whence int) (int64, error) {
	if f == nil {
		return 0, fs.ErrInvalid
	}
	var r int64
	err := f.fsys.do(OpSeek, f.path, "", offset, whence, nil, func(int) error {
		if e := f.checkOpen("seek"); e != nil {
			return e
		}
		var base int64
		switch whence {
		case io.SeekStart:
		case io.SeekCurrent:
			base = f.off
		case io.SeekEnd:
			base = int64(len(f.ino.data))
		default:
			return pathErr("seek", f.name, syscall.EINVAL)
		}
		if base+offset < 0 {
			return pathErr("seek", f.name, syscall.EINVAL)
		}
		f.off = base + offset
		r = f.off
		return nil
	})
	return r, err
}

type fileInfo struct {
	name  string
	size  int64
	dir   bool
	mtime int64
}

func (fi *fileInfo) Name() string { return fi.name }
func (fi *fileInfo) Size() int64  { return fi.size }
func (fi *fileInfo) Mode() fs.FileMode {
	if fi.dir {
		return fs.ModeDir | 0o755
	}
	return 0o644
}
func (fi *fileInfo) ModTime() time.Time         { return simtime.At(fi.mtime) }
func (fi *fileInfo) IsDir() bool                { return fi.dir }
func (fi *fileInfo) Sys() any                   { return nil }
func (fi *fileInfo) Type() fs.FileMode          { return fi.Mode().Type() }
func (fi *fileInfo) Info() (fs.FileInfo, error) { return fi, nil }

func infoOf(p string, n *inode) *fileInfo {
	return &fileInfo{name: filepath.Base(p), size: int64(len(n.data)), dir: n.dir, mtime: n.mtime}
}

func (f *File) Stat() (FileInfo, error) {
	if f == nil {
		return nil, fs.ErrInvalid
	}
	var fi FileInfo
	err := f.fsys.do(OpStat, f.path, "", 0, 0, nil, func(int) error {
		if e := f.checkOpen("stat"); e != nil {
			return e
		}
		fi = infoOf(f.path, f.ino)
		return nil
	})
	return fi, err
}

func (f *File) Sync() error {
	if f == nil {
		return fs.ErrInvalid
	}
	return f.fsys.do(OpSync, f.path, "", 0, 0, nil, func(int) error {
		return f.checkOpen("sync")
	})
}

func (f *File) Truncate(size int64) error {
	if f == nil {
		return fs.ErrInvalid
	}
	return f.fsys.do(OpTruncate, f.path, "", size, 0, nil, func(int) error {
		if e := f.checkOpen("truncate"); e != nil {
			return e
		}
		if !f.writable() {
			return pathErr("truncate", f.name, syscall.EINVAL)
		}
		f.fsys.truncate(f.ino, size)
		return nil
	})
}

func (fsys *FS) truncate(n *inode, size int64) {
	if w := simrt.Current(); w != nil {
		n.mtime = w.Now()
	}
	if size <= int64(len(n.data)) {
		// re-slice with clipped capacity so that a later append cannot overwrite
		// bytes a snapshot still sees
		n.data = n.data[:size:size]
		return
	}
	fsys.private(n)
	n.data = append(n.data, make([]byte, size-int64(len(n.data)))...)
}

func (f *File) Readdir(n int) ([]FileInfo, error) {
	ents, err := f.ReadDir(n)
	var r []FileInfo
	for _, e := range ents {
		fi, _ := e.Info()
		r = append(r, fi)
	}
	return r, err
}

func (f *File) Readdirnames(n int) ([]string, error) {
	ents, err := f.ReadDir(n)
	var r []string
	for _, e := range ents {
		r = append(r, e.Name())
	}
	return r, err
}

func (f *File) ReadDir(n int) ([]DirEntry, error) {
	if f == nil {
		return nil, fs.ErrInvalid
	}
	var out []DirEntry
	err := f.fsys.do(OpReadDir, f.path, "", 0, 0, nil, func(int) error {
		if e := f.checkOpen("readdir"); e != nil {
			return e
		}
		if !f.ino.dir {
			return pathErr("readdir", f.name, syscall.ENOTDIR)
		}
		if f.dirRead {
			if n > 0 {
				return io.EOF
			}
			return nil
		}
		f.dirRead = true
		out = f.fsys.readDir(f.path)
		return nil
	})
	return out, err
}

func (fsys *FS) readDir(dir string) []DirEntry {
	var names []string
	prefix := dir
	if prefix != "/" {
		prefix += "/"
	}
	for p := range fsys.nodes {
		if p != dir && strings.HasPrefix(p, prefix) && !strings.Contains(p[len(prefix):], "/") {
			names = append(names, p)
		}
	}
	sort.Strings(names)
	var out []DirEntry
	for _, p := range names {
		out = append(out, infoOf(p, fsys.nodes[p]))
	}
	return out
}

func (f *File) Chmod(FileMode) error { return nil }
func (f *File) Fd() uintptr          { return uintptr(1000 + f.id) }

// --- path-based operations ---

func Stat(name string) (FileInfo, error) {
	fsys := cur()
	p := clean(name)
	var fi FileInfo
	err := fsys.do(OpStat, p, "", 0, 0, nil, func(int) error {
		n, ok := fsys.nodes[p]
		if !ok {
			return pathErr("stat", name, syscall.ENOENT)
		}
		fi = infoOf(p, n)
		return nil
	})
	return fi, err
}

func Lstat(name string) (FileInfo, error) { return Stat(name) }

func Remove(name string) error {
	fsys := cur()
	p := clean(name)
	return fsys.do(OpRemove, p, "", 0, 0, nil, func(int) error {
		n, ok := fsys.nodes[p]
		if !ok {
			return pathErr("remove", name, syscall.ENOENT)
		}
		if n.dir && len(fsys.readDir(p)) > 0 {
			return pathErr("remove", name, syscall.ENOTEMPTY)
		}
		delete(fsys.nodes, p)
		return nil
	})
}

// RemoveAll removes path and any children; each removed file is one mutating op
// (so a crash can land in the middle, as with the real implementation).
func RemoveAll(name string) error {
	fsys := cur()
	p := clean(name)
	var victims []string
	fsys.do(OpReadDir, p, "", 0, 0, nil, func(int) error {
		prefix := p + "/"
		for q := range fsys.nodes {
			if q == p || strings.HasPrefix(q, prefix) {
				victims = append(victims, q)
			}
		}
		// children before parents
		sort.Slice(victims, func(i, j int) bool {
			if len(victims[i]) != len(victims[j]) {
				return len(victims[i]) > len(victims[j])
			}
			return victims[i] < victims[j]
		})
		return nil
	})
	for _, q := range victims {
		q := q
		fsys.do(OpRemove, q, "", 0, 0, nil, func(int) error {
			delete(fsys.nodes, q)
			return nil
		})
	}
	return nil
}

func Rename(oldname, newname string) error {
	fsys := cur()
	op, np := clean(oldname), clean(newname)
	return fsys.do(OpRename, op, np, 0, 0, nil, func(int) error {
		n, ok := fsys.nodes[op]
		if !ok {
			return &linkError{"rename", oldname, newname, syscall.ENOENT}
		}
		if parent, ok := fsys.nodes[filepath.Dir(np)]; !ok || !parent.dir {
			return &linkError{"rename", oldname, newname, syscall.ENOENT}
		}
		if t, ok := fsys.nodes[np]; ok {
			if t.dir != n.dir {
				if t.dir {
					return &linkError{"rename", oldname, newname, syscall.EISDIR}
				}
				return &linkError{"rename", oldname, newname, syscall.ENOTDIR}
			}
			if t.dir && len(fsys.readDir(np)) > 0 {
				return &linkError{"rename", oldname, newname, syscall.ENOTEMPTY}
			}
		}
		if op == np {
			return nil
		}
		if n.dir {
			prefix := op + "/"
			var moves []string
			for q := range fsys.nodes {
				if strings.HasPrefix(q, prefix) {
					moves = append(moves, q)
				}
			}
			for _, q := range moves {
				fsys.nodes[np+"/"+q[len(prefix):]] = fsys.nodes[q]
				delete(fsys.nodes, q)
			}
		}
		fsys.nodes[np] = n
		delete(fsys.nodes, op)
		// open handles keep referring to the inode; update their path for logs
		for _, h := range fsys.open {
			if h.ino == n {
				h.path = np
			}
		}
		return nil
	})
}

func Truncate(name string, size int64) error {
	fsys := cur()
	p := clean(name)
	return fsys.do(OpTruncate, p, "", size, 0, nil, func(int) error {
		n, ok := fsys.nodes[p]
		if !ok {
			return pathErr("truncate", name, syscall.ENOENT)
		}
		if n.dir {
			return pathErr("truncate", name, syscall.EISDIR)
		}
		if size < 0 {
			return pathErr("truncate", name, syscall.EINVAL)
		}
		fsys.truncate(n, size)
		return nil
	})
}

func Mkdir(name string, perm FileMode) error {
	fsys := cur()
	p := clean(name)
	return fsys.do(OpMkdir, p, "", 0, 0, nil, func(int) error {
		if _, ok := fsys.nodes[p]; ok {
			return pathErr("mkdir", name, syscall.EEXIST)
		}
		parent, ok := fsys.nodes[filepath.Dir(p)]
		if !ok {
			return pathErr("mkdir", name, syscall.ENOENT)
		}
		if !parent.dir {
			return pathErr("mkdir", name, syscall.ENOTDIR)
		}
		fsys.nodes[p] = &inode{dir: true, gen: fsys.snapGen}
		return nil
	})
}

func MkdirAll(name string, perm FileMode) error {
	fsys := cur()
	p := clean(name)
	// one op per missing component, top-down
	var missing []string
	var failure error
	fsys.do(OpStat, p, "", 0, 0, nil, func(int) error {
		q := p
		for q != "/" {
			n, ok := fsys.nodes[q]
			if ok {
				if !n.dir {
					failure = pathErr("mkdir", q, syscall.ENOTDIR)
				}
				break
			}
			missing = append(missing, q)
			q = filepath.Dir(q)
		}
		return nil
	})
	if failure != nil {
		return failure
	}
	for i := len(missing) - 1; i >= 0; i-- {
		q := missing[i]
		fsys.do(OpMkdir, q, "", 0, 0, nil, func(int) error {
			if _, ok := fsys.nodes[q]; !ok {
				fsys.nodes[q] = &inode{dir: true, gen: fsys.snapGen}
			}
			return nil
		})
	}
	return nil
}

// MkdirTemp creates a new directory with a deterministic unique name.
func MkdirTemp(dir, pattern string) (string, error) {
	fsys := cur()
	if dir == "" {
		dir = TempDir()
	}
	d := clean(dir)
	var name string
	err := fsys.do(OpMkdir, d, "", 0, 0, nil, func(int) error {
		parent, ok := fsys.nodes[d]
		if !ok {
			return pathErr("mkdirtemp", dir, syscall.ENOENT)
		}
		if !parent.dir {
			return pathErr("mkdirtemp", dir, syscall.ENOTDIR)
		}
		prefix, suffix := pattern, ""
		if i := strings.LastIndex(pattern, "*"); i >= 0 {
			prefix, suffix = pattern[:i], pattern[i+1:]
		}
		for {
			fsys.tempSeq++
			cand := filepath.Join(d, prefix+itoa(1000000+fsys.tempSeq)+suffix)
			if _, exists := fsys.nodes[cand]; !exists {
				fsys.nodes[cand] = &inode{dir: true, gen: fsys.snapGen}
				name = filepath.Join(dir, filepath.Base(cand))
				return nil
			}
		}
	})
	return name, err
}

func CreateTemp(dir, pattern string) (*File, error) {
	fsys := cur()
	if dir == "" {
		dir = TempDir()
	}
	prefix, suffix := pattern, ""
	if i := strings.LastIndex(pattern, "*"); i >= 0 {
		prefix, suffix = pattern[:i], pattern[i+1:]
	}
	for {
		fsys.tempSeq++
		name := filepath.Join(dir, prefix+itoa(1000000+fsys.tempSeq)+suffix)
		f, err := OpenFile(name, O_RDWR|O_CREATE|O_EXCL, 0o600)
		if IsExist(err) {
			continue
		}
		return f, err
	}
}

// ReadFile = open + read + close (three ops, as the real one issues at least
// open/read/close system calls).
func ReadFile(name string) ([]byte, error) {
	f, err := Open(name)
	if err != nil {
		return nil, err
	}
	defer f.Close()
	var out []byte
	buf := make([]byte, 512)
	for {
		n, err := f.Read(buf)
		out = append(out, buf[:n]...)
		if err == io.EOF {
			return out, nil
		}
		if err != nil {
			return out, err
		}
		if n == len(buf) {
			buf = make([]byte, 2*len(buf))
		}
	}
}

// WriteFile = open(O_WRONLY|O_CREATE|O_TRUNC) + write + close, exactly the
// sequence of the real implementation: the file is empty between the first two.
func WriteFile(name string, data []byte, perm FileMode) error {
	f, err := OpenFile(name, O_WRONLY|O_CREATE|O_TRUNC, perm)
	if err != nil {
		return err
	}
	_, err = f.Write(data)
	if err1 := f.Close(); err1 != nil && err == nil {
		err = err1
	}
	return err
}

func ReadDir(name string) ([]DirEntry, error) {
	f, err := Open(name)
	if err != nil {
		return nil, err
	}
	defer f.Close()
	return f.ReadDir(-1)
}

func SameFile(a, b FileInfo) bool { return a == b }

func Exit(code int) { panic("os.Exit called under simulation") }
