//go:build !passthrough

package simos

import (
	"bytes"
	"fmt"
	"io"
	"os"
	"path/filepath"
	"sort"
	"testing"

	"verif/sim/simrt"
)

// Differential fidelity test: random operation sequences are applied to the
// simulated file system and to the real package os on a temporary directory;
// every result, error class and the final tree must agree.

func errClass(err error) string {
	switch {
	case err == nil:
		return "ok"
	case err == io.EOF:
		return "EOF"
	case os.IsNotExist(err) || IsNotExist(err):
		return "notexist"
	case os.IsExist(err) || IsExist(err):
		return "exist"
	default:
		return "error"
	}
}

type handlePair struct {
	sim  *File
	real *os.File
}

func TestFidelity(t *testing.T) {
	seeds := 300
	if testing.Short() {
		seeds = 60
	}
	for seed := 1; seed <= seeds; seed++ {
		runFidelity(t, uint64(seed))
	}
}

func runFidelity(t *testing.T, seed uint64) {
	r := simrt.NewRand(seed)
	root := t.TempDir()
	defaultFS = NewFS()
	defaultFS.MkdirAllDirect("/t")
	names := []string{"a", "b", "c.0", "d/x"}
	os.MkdirAll(filepath.Join(root, "d"), 0o755)
	defaultFS.MkdirAllDirect("/t/d")
	var hs []handlePair
	flagsPool := []int{os.O_RDONLY, os.O_RDWR, os.O_WRONLY | os.O_APPEND | os.O_CREATE, os.O_RDWR | os.O_APPEND | os.O_CREATE,
		os.O_RDWR | os.O_CREATE | os.O_TRUNC, os.O_WRONLY | os.O_CREATE | os.O_TRUNC, os.O_RDWR | os.O_CREATE | os.O_EXCL, os.O_WRONLY | os.O_APPEND | os.O_CREATE | os.O_TRUNC}
	var trace []string
	check := func(step int, what string, a, b any) {
		trace = append(trace, fmt.Sprintf("%d %s -> %v", step, what, a))
		if fmt.Sprint(a) != fmt.Sprint(b) {
			for _, l := range trace {
				t.Log(l)
			}
			t.Fatalf("seed %d step %d: %s: sim=%v real=%v", seed, step, what, a, b)
		}
	}
	for step := 0; step < 120; step++ {
		name := names[r.Intn(len(names))]
		sp, rp := "/t/"+name, filepath.Join(root, name)
		switch r.Intn(14) {
		case 0, 1:
			fl := flagsPool[r.Intn(len(flagsPool))]
			sf, e1 := OpenFile(sp, fl, 0o644)
			rf, e2 := os.OpenFile(rp, fl, 0o644)
			check(step, fmt.Sprintf("open %s %x", name, fl), errClass(e1), errClass(e2))
			if e1 == nil && e2 == nil {
				hs = append(hs, handlePair{sf, rf})
			}
		case 2, 3:
			if len(hs) == 0 {
				continue
			}
			h := hs[r.Intn(len(hs))]
			data := make([]byte, r.Intn(40))
			for i := range data {
				data[i] = byte(r.Intn(256))
			}
			n1, e1 := h.sim.Write(data)
			n2, e2 := h.real.Write(data)
			check(step, fmt.Sprintf("write %s flag=%x", h.sim.name, h.sim.flag), n1, n2)
			check(step, "write err", errClass(e1), errClass(e2))
		case 4:
			if len(hs) == 0 {
				continue
			}
			h := hs[r.Intn(len(hs))]
			data := []byte{1, 2, 3, 4}
			off := int64(r.Intn(60))
			n1, e1 := h.sim.WriteAt(data, off)
			n2, e2 := h.real.WriteAt(data, off)
			check(step, fmt.Sprintf("writeat %s flag=%x off=%d", h.sim.name, h.sim.flag, off), n1, n2)
			check(step, "writeat err", errClass(e1), errClass(e2))
		case 5, 6:
			if len(hs) == 0 {
				continue
			}
			h := hs[r.Intn(len(hs))]
			b1, b2 := make([]byte, r.Intn(30)), []byte(nil)
			b2 = make([]byte, len(b1))
			off := int64(r.Intn(80))
			n1, e1 := h.sim.ReadAt(b1, off)
			n2, e2 := h.real.ReadAt(b2, off)
			check(step, "readat n", n1, n2)
			check(step, "readat err", errClass(e1), errClass(e2))
			check(step, "readat data", b1[:n1], b2[:n2])
		case 7:
			if len(hs) == 0 {
				continue
			}
			h := hs[r.Intn(len(hs))]
			b1 := make([]byte, 1+r.Intn(30))
			b2 := make([]byte, len(b1))
			n1, e1 := h.sim.Read(b1)
			n2, e2 := h.real.Read(b2)
			check(step, fmt.Sprintf("read %s flag=%x", h.sim.name, h.sim.flag), n1, n2)
			check(step, "read err", errClass(e1), errClass(e2))
			check(step, "read data", b1[:n1], b2[:n2])
		case 8:
			if len(hs) == 0 {
				continue
			}
			h := hs[r.Intn(len(hs))]
			wh := r.Intn(3)
			off := int64(r.Intn(20))
			p1, e1 := h.sim.Seek(off, wh)
			p2, e2 := h.real.Seek(off, wh)
			check(step, fmt.Sprintf("seek %s flag=%x off=%d wh=%d", h.sim.name, h.sim.flag, off, wh), p1, p2)
			check(step, "seek err", errClass(e1), errClass(e2))
		case 9:
			if len(hs) == 0 {
				continue
			}
			k := r.Intn(len(hs))
			h := hs[k]
			hs = append(hs[:k], hs[k+1:]...)
			check(step, "close", errClass(h.sim.Close()), errClass(h.real.Close()))
		case 10:
			sz := int64(r.Intn(70))
			if r.Chance(0.5) && len(hs) > 0 {
				h := hs[r.Intn(len(hs))]
				e1, e2 := h.sim.Truncate(sz), h.real.Truncate(sz)
				check(step, fmt.Sprintf("ftruncate %s flag=%x sz=%d", h.sim.name, h.sim.flag, sz), errClass(e1), errClass(e2))
			} else {
				check(step, fmt.Sprintf("truncate %s sz=%d", name, sz), errClass(Truncate(sp, sz)), errClass(os.Truncate(rp, sz)))
			}
		case 11:
			n2 := names[r.Intn(len(names))]
			check(step, "rename", errClass(Rename(sp, "/t/"+n2)), errClass(os.Rename(rp, filepath.Join(root, n2))))
		case 12:
			check(step, "remove", errClass(Remove(sp)), errClass(os.Remove(rp)))
		default:
			fi1, e1 := Stat(sp)
			fi2, e2 := os.Stat(rp)
			check(step, "stat err", errClass(e1), errClass(e2))
			if e1 == nil && e2 == nil {
				check(step, "stat size", fi1.Size(), fi2.Size())
			}
			if len(hs) > 0 {
				h := hs[r.Intn(len(hs))]
				f1, e1 := h.sim.Stat()
				f2, e2 := h.real.Stat()
				check(step, "fstat err", errClass(e1), errClass(e2))
				if e1 == nil && e2 == nil {
					check(step, "fstat size", f1.Size(), f2.Size())
				}
			}
		}
	}
	for _, h := range hs {
		h.sim.Close()
		h.real.Close()
	}
	// final trees
	var simFiles []string
	for _, p := range defaultFS.List() {
		d, _ := defaultFS.ReadFileDirect(p)
		simFiles = append(simFiles, fmt.Sprintf("%s=%x", p[len("/t/"):], d))
	}
	var realFiles []string
	filepath.Walk(root, func(p string, info os.FileInfo, err error) error {
		if err == nil && !info.IsDir() {
			d, _ := os.ReadFile(p)
			rel, _ := filepath.Rel(root, p)
			realFiles = append(realFiles, fmt.Sprintf("%s=%x", rel, d))
		}
		return nil
	})
	sort.Strings(simFiles)
	sort.Strings(realFiles)
	if !bytes.Equal([]byte(fmt.Sprint(simFiles)), []byte(fmt.Sprint(realFiles))) {
		t.Fatalf("seed %d: final trees differ:\nsim  %v\nreal %v", seed, simFiles, realFiles)
	}
	// WriteFile / ReadFile round trip and truncation semantics
	check(0, "writefile", errClass(WriteFile("/t/wf", []byte("hello"), 0o644)), "ok")
	check(0, "writefile2", errClass(WriteFile("/t/wf", []byte("hi"), 0o644)), "ok")
	got, err := ReadFile("/t/wf")
	check(0, "readfile", string(got)+errClass(err), "hiok")
}
