package main

import (
	"context"
	"fmt"

	"github.com/ipld/go-storethehash/store"
	"github.com/multiformats/go-multihash"
	"verif/sim/simos"
	"verif/sim/simrt"
)

func main() {
	tape := simrt.NewTape(1)
	fs := simos.NewFS()
	fs.MkdirAllDirect("/s")
	_, res := simrt.Run(simrt.Config{Trace: true, CapturePC: true}, tape, func(w *simrt.World) { simos.Attach(w, fs) }, func() {
		s, err := store.OpenStore(context.Background(), store.MultihashPrimary, "/s/data", "/s/index", false, store.IndexBitSize(8), store.GCInterval(0))
		if err != nil {
			panic(err)
		}
		s.Start()
		for i := 0; i < 5; i++ {
			mh, _ := multihash.Sum([]byte{byte(i)}, multihash.SHA2_256, -1)
			if err := s.Put(mh, []byte(fmt.Sprintf("value-%d", i))); err != nil {
				panic(err)
			}
		}
		s.Flush()
		for i := 0; i < 5; i++ {
			mh, _ := multihash.Sum([]byte{byte(i)}, multihash.SHA2_256, -1)
			v, ok, err := s.Get(mh)
			fmt.Println(i, string(v), ok, err)
		}
		fmt.Println("close:", s.Close())
	})
	fmt.Printf("%+v\n", res.Outcome)
	fmt.Println(res.Steps, res.SimTime, fs.List(), len(tape.Rec))
}
