// simcheck: deterministic-simulation checks for go-storethehash properties.
//
//	simcheck check  -prop C01 -tier quick      parent: spawns workers, writes evidence
//	simcheck worker ...                        one worker process (internal)
//	simcheck replay -file replays/C01-123.json re-executes a replay file
//	simcheck gen    -prop C01 -seed 5          prints the plan of a seed
package main

import (
	"bufio"
	"bytes"
	"encoding/json"
	"flag"
	"fmt"
	"os"
	"os/exec"
	"path/filepath"
	"runtime"
	"sort"
	"strconv"
	"strings"
	"sync"
	"time"

	"verif/sim/harness"
	"verif/sim/simrt"
)

func envInt(name string, def int) int {
	if s := os.Getenv(name); s != "" {
		if v, err := strconv.Atoi(s); err == nil {
			return v
		}
	}
	return def
}

func main() {
	if len(os.Args) < 2 {
		fmt.Fprintln(os.Stderr, "usage: simcheck check|worker|replay|gen ...")
		os.Exit(2)
	}
	// go-log writes to stderr at error level from store code paths that are
	// expected under fault injection; silence it.
	harness.QuietLogs()
	switch os.Args[1] {
	case "check":
		os.Exit(cmdCheck(os.Args[2:]))
	case "worker":
		os.Exit(cmdWorker(os.Args[2:]))
	case "replay":
		os.Exit(cmdReplay(os.Args[2:]))
	case "gen":
		os.Exit(cmdGen(os.Args[2:]))
	case "detself":
		os.Exit(cmdDetSelf(os.Args[2:]))
	default:
		fmt.Fprintln(os.Stderr, "unknown subcommand", os.Args[1])
		os.Exit(2)
	}
}

func cmdGen(args []string) int {
	fl := flag.NewFlagSet("gen", flag.ExitOnError)
	prop := fl.String("prop", "", "property")
	tier := fl.String("tier", "quick", "tier")
	seed := fl.Uint64("seed", 1, "seed (final, not base)")
	fl.Parse(args)
	p := harness.Generate(*prop, *seed, *tier)
	b, _ := json.MarshalIndent(p, "", " ")
	fmt.Println(string(b))
	return 0
}

func cmdReplay(args []string) int {
	fl := flag.NewFlagSet("replay", flag.ExitOnError)
	file := fl.String("file", "", "replay file")
	quiet := fl.Bool("quiet", false, "print only the verdict")
	steer := fl.String("steer", "", "comma separated steering rules in force")
	dump := fl.Bool("dump", false, "dump the final file system and fsck it")
	fl.Parse(args)
	if *file == "" && fl.NArg() > 0 {
		*file = fl.Arg(0)
	}
	rf, err := harness.LoadReplay(*file)
	if err != nil {
		fmt.Fprintln(os.Stderr, "replay:", err)
		return 2
	}
	harness.SetSteer(parseSteer(*steer))
	out := harness.Replay(rf, !*quiet)
	if !*quiet {
		for _, l := range out.Trace {
			fmt.Println(l)
		}
		fmt.Printf("outcome=%s steps=%d sim_time=%dns worlds=%d\n", out.Outcome, out.Steps, out.SimTime, out.Worlds)
		if *dump && out.FinalFS != nil {
			harness.DumpFS(out.FinalFS, rf.Plan)
		}
	}
	if out.Viol != nil {
		fmt.Printf("REPLAY-VIOLATION property=%s class=%s\n%s\n", rf.Property, out.Viol.Class, out.Viol.Msg)
		if rf.Violation != nil && rf.Violation.Class != out.Viol.Class {
			fmt.Printf("note: recorded class was %s\n", rf.Violation.Class)
		}
		return 1
	}
	fmt.Println("REPLAY-OK: no violation")
	return 0
}

func parseSteer(s string) map[string]bool {
	m := map[string]bool{}
	for _, r := range strings.Split(s, ",") {
		if r = strings.TrimSpace(r); r != "" {
			m[r] = true
		}
	}
	return m
}

func cmdWorker(args []string) int {
	fl := flag.NewFlagSet("worker", flag.ExitOnError)
	var a harness.WorkerArgs
	fl.StringVar(&a.Prop, "prop", "", "")
	fl.StringVar(&a.Tier, "tier", "quick", "")
	fl.Uint64Var(&a.Base, "base", 1, "")
	fl.IntVar(&a.Idx, "idx", 0, "")
	fl.IntVar(&a.N, "n", 1, "")
	fl.Float64Var(&a.BudgetS, "budget", 10, "")
	fl.IntVar(&a.MaxRuns, "maxruns", 0, "")
	fl.StringVar(&a.Scratch, "scratch", "", "")
	fl.StringVar(&a.ReplayDir, "replays", "replays", "")
	steer := fl.String("steer", "", "")
	fl.Parse(args)
	a.Steer = parseSteer(*steer)
	runtime.GOMAXPROCS(envInt("VERIF_WORKER_PROCS", 2))
	rep := harness.RunWorker(a)
	b, _ := json.Marshal(rep)
	os.Stdout.Write(append(b, '\n'))
	if rep.InfraError != "" {
		return 2
	}
	return 0
}

// outDir is where evidence and replay files go (VERIF_OUT_DIR, default the
// verif directory); mutation runs point it at a scratch directory.
func outDir() string {
	if d := os.Getenv("VERIF_OUT_DIR"); d != "" {
		return d
	}
	return verifDir()
}

func verifDir() string {
	if d := os.Getenv("VERIF_DIR"); d != "" {
		return d
	}
	return "/verif"
}

func cmdCheck(args []string) int {
	fl := flag.NewFlagSet("check", flag.ExitOnError)
	prop := fl.String("prop", "", "property id")
	tier := fl.String("tier", "quick", "quick|thorough")
	workers := fl.Int("workers", envInt("VERIF_WORKERS", 16), "worker processes")
	budget := fl.Int("budget", envInt("VERIF_BUDGET_S", 0), "wall-clock budget in seconds (0: tier default)")
	maxRuns := fl.Int("maxruns", 0, "cap on runs per worker (0: none)")
	evidence := fl.String("evidence", "", "evidence file (default /verif/evidence/<id>.json)")
	fl.Parse(args)
	spec := harness.Props[*prop]
	if spec == nil {
		fmt.Fprintln(os.Stderr, "check: unknown property", *prop)
		return 2
	}
	base := uint64(envInt("VERIF_SEED", 1))
	if *budget == 0 {
		*budget = spec.Quick
		if *tier == "thorough" {
			*budget = spec.Thorough
		}
	}
	if *evidence == "" {
		*evidence = filepath.Join(outDir(), "evidence", *prop+".json")
	}
	start := time.Now()
	replayDir := filepath.Join(outDir(), "replays")
	scratch, err := os.MkdirTemp("", "simcheck-"+*prop+"-")
	if err != nil {
		fmt.Fprintln(os.Stderr, "check:", err)
		return 2
	}
	defer os.RemoveAll(scratch)

	fmt.Printf("simcheck: property=%s tier=%s VERIF_SEED=%d workers=%d budget=%ds\n", *prop, *tier, base, *workers, *budget)

	// known findings: run each witness without steering
	kf := harness.LoadKnownFindings(filepath.Join(verifDir(), "KNOWN_FINDINGS.txt"))
	steer := map[string]bool{}
	var knownLines []string
	for _, f := range kf {
		if f.Prop != *prop || f.Fixed {
			continue
		}
		status, line := harness.RunWitness(verifDir(), f)
		switch status {
		case harness.WitnessReproduced:
			knownLines = append(knownLines, line)
			fmt.Println(line)
			for _, r := range f.Steer {
				steer[r] = true
			}
		case harness.WitnessPassed:
			fmt.Printf("NOTE: witness of %s no longer fails; its steering rule is disabled for this run\n", f.ID)
		default:
			fmt.Printf("NOTE: witness of %s could not be executed (%s); steering rule kept\n", f.ID, line)
			for _, r := range f.Steer {
				steer[r] = true
			}
		}
	}
	var steerList []string
	for r := range steer {
		steerList = append(steerList, r)
	}
	sort.Strings(steerList)

	reports := make([]*harness.WorkerReport, *workers)
	errs := make([]string, *workers)
	var wg sync.WaitGroup
	for i := 0; i < *workers; i++ {
		wg.Add(1)
		go func(i int) {
			defer wg.Done()
			cmd := exec.Command(os.Args[0], "worker", "-prop", *prop, "-tier", *tier, "-base", strconv.FormatUint(base, 10),
				"-idx", strconv.Itoa(i), "-n", strconv.Itoa(*workers), "-budget", strconv.Itoa(*budget),
				"-maxruns", strconv.Itoa(*maxRuns), "-scratch", scratch, "-replays", replayDir, "-steer", strings.Join(steerList, ","))
			var stdout, stderr bytes.Buffer
			cmd.Stdout = &stdout
			cmd.Stderr = &stderr
			raceLog := filepath.Join(scratch, fmt.Sprintf("race-%d", i))
			cmd.Env = append(os.Environ(), "GORACE=halt_on_error=0 log_path="+raceLog, "VERIF_RACE_LOG="+raceLog)
			// watchdog: a worker that overruns its budget massively is an infrastructure failure
			done := make(chan error, 1)
			if err := cmd.Start(); err != nil {
				errs[i] = err.Error()
				return
			}
			go func() { done <- cmd.Wait() }()
			limit := time.Duration(*budget)*time.Second*3 + 180*time.Second
			select {
			case <-done:
			case <-time.After(limit):
				cmd.Process.Kill()
				errs[i] = fmt.Sprintf("worker %d exceeded watchdog limit %v", i, limit)
				return
			}
			var rep harness.WorkerReport
			sc := bufio.NewScanner(&stdout)
			sc.Buffer(make([]byte, 1<<20), 1<<28)
			ok := false
			for sc.Scan() {
				line := sc.Bytes()
				if len(line) > 0 && line[0] == '{' {
					if json.Unmarshal(line, &rep) == nil {
						ok = true
					}
				}
			}
			if !ok {
				tail := stderr.String()
				if len(tail) > 3000 {
					tail = tail[len(tail)-3000:]
				}
				errs[i] = fmt.Sprintf("worker %d produced no report; stderr tail:\n%s", i, tail)
				return
			}
			reports[i] = &rep
		}(i)
	}
	wg.Wait()
	infra := ""
	for _, e := range errs {
		if e != "" && infra == "" {
			infra = e // the other workers' reports are still merged and their violations confirmed
		}
	}

	// merge
	total := &harness.WorkerReport{Probes: map[string]int{}, Faults: map[string]int{}, FsOps: map[string]int{},
		Outcomes: map[string]int{}, Inconclusive: map[string]int{}}
	for _, r := range reports {
		if r == nil {
			continue // that worker produced no report (recorded in infra)
		}
		total.Runs += r.Runs
		total.Worlds += r.Worlds
		total.Steps += r.Steps
		total.SimTimeNs += r.SimTimeNs
		total.Switches += r.Switches
		for k, v := range r.Probes {
			total.Probes[k] += v
		}
		for k, v := range r.Faults {
			total.Faults[k] += v
		}
		for k, v := range r.FsOps {
			total.FsOps[k] += v
		}
		for k, v := range r.Outcomes {
			total.Outcomes[k] += v
		}
		for k, v := range r.Inconclusive {
			total.Inconclusive[k] += v
		}
		total.Violations = append(total.Violations, r.Violations...)
		if len(total.Samples) < 4 {
			total.Samples = append(total.Samples, r.Samples...)
		}
		if r.InfraError != "" {
			infra = r.InfraError
		}
	}
	// infrastructure trouble in a worker (a run that hit the real-time watchdog,
	// a worker that died) ends the check with exit 2 — unless another worker found
	// a violation that reproduces in a fresh process, which stands on its own
	// (decided after the confirmation loop below)
	nontriv, sched, states := map[uint64]struct{}{}, map[uint64]struct{}{}, map[uint64]struct{}{}
	for i := 0; i < *workers; i++ {
		harness.ReadHashFile(filepath.Join(scratch, fmt.Sprintf("nontriv-%d.bin", i)), nontriv)
		harness.ReadHashFile(filepath.Join(scratch, fmt.Sprintf("sched-%d.bin", i)), sched)
		harness.ReadHashFile(filepath.Join(scratch, fmt.Sprintf("states-%d.bin", i)), states)
	}

	// verify each violation in a fresh process, de-duplicate by class
	exit := 0
	seenClass := map[string]bool{}
	var confirmed []harness.ViolationReport
	sort.Slice(total.Violations, func(i, j int) bool { return total.Violations[i].Seed < total.Violations[j].Seed })
	for _, v := range total.Violations {
		if seenClass[v.Class] {
			continue
		}
		seenClass[v.Class] = true
		cmd := exec.Command(os.Args[0], "replay", "-quiet", "-file", v.Replay, "-steer", strings.Join(steerList, ","))
		outb, _ := cmd.CombinedOutput()
		reproduced := cmd.ProcessState != nil && cmd.ProcessState.ExitCode() == 1 && strings.Contains(string(outb), "class="+v.Class)
		if !reproduced && v.Class == "race/data-race" {
			// ThreadSanitizer evicts shadow cells pseudo-randomly, so a report is not
			// guaranteed to re-fire on the same schedule; it has no false positives,
			// so the report observed by the worker stands. Try a few more times.
			for i := 0; i < 6 && !reproduced; i++ {
				c2 := exec.Command(os.Args[0], "replay", "-quiet", "-file", v.Replay)
				o2, _ := c2.CombinedOutput()
				reproduced = c2.ProcessState != nil && c2.ProcessState.ExitCode() == 1 && strings.Contains(string(o2), "class="+v.Class)
			}
			if !reproduced {
				fmt.Printf("NOTE: the race report of seed %d did not re-fire in 7 fresh replays (detector shadow eviction); the worker's report is kept\n", v.Seed)
				reproduced = true
			}
		}
		if !reproduced {
			// remembered; fatal (exit 2) only if nothing else is confirmed
			msg := fmt.Sprintf("replay file %s did not reproduce class %s in a fresh process:\n%s", v.Replay, v.Class, outb)
			if infra == "" {
				infra = msg
			}
			fmt.Fprintln(os.Stderr, "NOTE: "+msg)
			continue
		}
		confirmed = append(confirmed, v)
		fmt.Printf("VIOLATION property=%s replay=%s\n", v.Prop, v.Replay)
		fmt.Printf("  class=%s seed=%d shrink_runs=%d\n  %s\n", v.Class, v.Seed, v.Shrunk, firstLines(v.Msg, 6))
		exit = 1
	}

	if infra != "" {
		if exit == 0 {
			fmt.Fprintln(os.Stderr, "INFRA:", infra)
			return 2
		}
		fmt.Fprintln(os.Stderr, "NOTE: infrastructure trouble in this run, not fatal because a violation was confirmed in a fresh process:", infra)
	}

	wall := time.Since(start).Seconds()
	hours := wall / 3600
	cov := map[string]any{
		"evaluations":                total.Runs,
		"distinct_nontrivial":        len(nontriv),
		"rule":                       spec.Rule,
		"samples":                    total.Samples,
		"simulated_worlds":           total.Worlds,
		"runs_per_hour":              int(float64(total.Runs) / hours),
		"seeds_per_hour":             int(float64(total.Runs) / hours),
		"simulated_time_s":           float64(total.SimTimeNs) / 1e9,
		"scheduler_steps":            total.Steps,
		"context_switches":           total.Switches,
		"distinct_schedules":         len(sched),
		"distinct_schedules_measure": "distinct (plan hash, hash of the (task, op) sequence at context switches)",
		"distinct_quiescent_states":  len(states),
		"fault_kinds_fired":          total.Faults,
		"fs_ops":                     total.FsOps,
		"probes":                     total.Probes,
		"run_outcomes":               total.Outcomes,
		"inconclusive":               total.Inconclusive,
		"components_real":            spec.Real,
		"components_simulated":       spec.Simulated,
		"known_findings":             knownLines,
		"steering_rules":             steerList,
		"workers":                    *workers,
		"technique":                  spec.Technique,
	}
	ev := map[string]any{
		"property_id": *prop,
		"tier":        *tier,
		"seed":        base,
		"level":       spec.Level,
		"coverage":    cov,
		"assumptions": spec.Assumptions,
		"wall_s":      wall,
		"violations":  len(confirmed),
	}
	os.MkdirAll(filepath.Dir(*evidence), 0o755)
	eb, _ := json.MarshalIndent(ev, "", " ")
	if err := os.WriteFile(*evidence, eb, 0o644); err != nil {
		fmt.Fprintln(os.Stderr, "INFRA: cannot write evidence:", err)
		return 2
	}
	fmt.Printf("simcheck: %s %s: runs=%d worlds=%d nontrivial_distinct=%d schedules=%d states=%d sim_time=%.1fs wall=%.1fs outcomes=%v violations=%d\n",
		*prop, *tier, total.Runs, total.Worlds, len(nontriv), len(sched), len(states), float64(total.SimTimeNs)/1e9, wall, total.Outcomes, len(confirmed))
	if len(total.Faults) > 0 {
		fmt.Printf("  faults fired: %v\n", total.Faults)
	}
	pn := make([]string, 0, len(total.Probes))
	for k := range total.Probes {
		pn = append(pn, k)
	}
	sort.Strings(pn)
	var ps []string
	for _, k := range pn {
		ps = append(ps, fmt.Sprintf("%s=%d", k, total.Probes[k]))
	}
	fmt.Printf("  probes: %s\n", strings.Join(ps, " "))
	if total.Runs == 0 || len(nontriv) < 2 {
		fmt.Fprintln(os.Stderr, "INFRA: the run explored fewer than 2 distinct non-trivial cases")
		return 2
	}
	return exit
}

func firstLines(s string, n int) string {
	lines := strings.Split(s, "\n")
	if len(lines) > n {
		lines = lines[:n]
	}
	return strings.Join(lines, "\n  ")
}

// cmdDetSelf runs one seed and prints a hash of everything observable, for the
// determinism self-test (compared across processes and GOMAXPROCS values).
func cmdDetSelf(args []string) int {
	fl := flag.NewFlagSet("detself", flag.ExitOnError)
	prop := fl.String("prop", "", "")
	tier := fl.String("tier", "quick", "")
	from := fl.Int("from", 0, "")
	n := fl.Int("n", 10, "")
	fl.Parse(args)
	base := uint64(envInt("VERIF_SEED", 1))
	for j := *from; j < *from+*n; j++ {
		seed := harness.SeedFor(base, *prop, j)
		plan := harness.Generate(*prop, seed, *tier)
		out := harness.Execute(plan, simrt.NewTape(seed^0x5bd1e995), harness.RunOpt{Tier: *tier, Trace: true})
		h := uint64(14695981039346656037)
		mix := func(s string) {
			for i := 0; i < len(s); i++ {
				h = (h ^ uint64(s[i])) * 1099511628211
			}
		}
		for _, l := range out.Trace {
			mix(l)
		}
		for _, t := range out.Tape {
			mix(strconv.Itoa(int(t)))
		}
		for _, s := range out.States {
			mix(strconv.FormatUint(s, 16))
		}
		v := ""
		if out.Viol != nil {
			v = out.Viol.Class
		}
		mix(v)
		fmt.Printf("%s j=%d seed=%d steps=%d simtime=%d outcome=%s viol=%q hash=%016x\n", *prop, j, seed, out.Steps, out.SimTime, out.Outcome, v, h)
	}
	return 0
}
