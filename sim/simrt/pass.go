//go:build passthrough

// Pass-through variant of simrt: the constructs the source transform routes
// through the simulator are executed by the Go runtime itself (go, channel
// operations, reflect.Select for select, sorted keys for map ranges).
package simrt

import (
	"cmp"
	"reflect"
	"slices"
)

func Go(site string, fn func())                       { go fn() }
func Send[T any](site string, ch chan<- T, v T)       { ch <- v }
func Recv[T any](site string, ch <-chan T) T          { return <-ch }
func Recv2[T any](site string, ch <-chan T) (T, bool) { v, ok := <-ch; return v, ok }
func Close[T any](site string, ch chan<- T)           { close(ch) }

type SelCase interface {
	rcase() reflect.SelectCase
	done(v reflect.Value, ok bool)
}

type RCase[T any] struct {
	ch  <-chan T
	Val T
	Ok  bool
}

type SCase[T any] struct {
	ch chan<- T
	v  T
}

func RecvCase[T any](ch <-chan T) *RCase[T]      { return &RCase[T]{ch: ch} }
func SendCase[T any](ch chan<- T, v T) *SCase[T] { return &SCase[T]{ch: ch, v: v} }

func (c *RCase[T]) rcase() reflect.SelectCase {
	return reflect.SelectCase{Dir: reflect.SelectRecv, Chan: reflect.ValueOf(c.ch)}
}
func (c *RCase[T]) done(v reflect.Value, ok bool) {
	if ok {
		c.Val = v.Interface().(T)
	}
	c.Ok = ok
}
func (c *SCase[T]) rcase() reflect.SelectCase {
	return reflect.SelectCase{Dir: reflect.SelectSend, Chan: reflect.ValueOf(c.ch), Send: reflect.ValueOf(c.v)}
}
func (c *SCase[T]) done(reflect.Value, bool) {}

func Select(site string, hasDefault bool, cases ...SelCase) int {
	rc := make([]reflect.SelectCase, 0, len(cases)+1)
	for _, c := range cases {
		rc = append(rc, c.rcase())
	}
	if hasDefault {
		rc = append(rc, reflect.SelectCase{Dir: reflect.SelectDefault})
	}
	i, v, ok := reflect.Select(rc)
	if i == len(cases) {
		return -1
	}
	cases[i].done(v, ok)
	return i
}

func MapKeys[M ~map[K]V, K cmp.Ordered, V any](site string, m M) []K {
	keys := make([]K, 0, len(m))
	for k := range m {
		keys = append(keys, k)
	}
	slices.Sort(keys)
	return keys
}
