//go:build !passthrough

// Package simrt is the deterministic scheduler at the centre of the simulator.
//
// A World runs application code as tasks. A task is a real goroutine that runs
// only while it holds the baton; exactly one task runs at a time. All simulator
// state (task table, wait sets, clock, timers, file system) is owned by the
// scheduler goroutine (the goroutine that called Run). A task that reaches a
// yield point posts an Op and parks; the scheduler picks the next runnable task
// (a choice recorded on the tape), applies the effect of its pending Op and
// wakes it.
//
// This package, and the other sim* packages, are compiled WITHOUT race
// instrumentation even in the -race binary (see bin/verif): the scheduler's
// hand-offs are additionally hidden from ThreadSanitizer with
// runtime.RaceDisable so that the only happens-before edges it sees are the ones
// simsync publishes on behalf of the application.
package simrt

import (
	"fmt"
	"runtime"
	"runtime/debug"
	"sort"
	"strings"
	"unsafe"
)

// Outcome of a run.
type Outcome int

const (
	OutDone     Outcome = iota // main task returned
	OutDeadlock                // nothing runnable, no timers pending
	OutCrash                   // a simulated process crash was injected
	OutPanic                   // a task panicked
	OutCapped                  // step or simulated-time budget exhausted
	OutStopped                 // Stop() was called by the harness
)

func (o Outcome) String() string {
	return [...]string{"done", "deadlock", "crash", "panic", "capped", "stopped"}[o]
}

// Config of a world.
type Config struct {
	MaxSteps   int   // 0 = default
	MaxSimTime int64 // ns of simulated time; 0 = unlimited
	Strategy   Strategy
	Trace      bool  // record every grant (task, kind, pc)
	NowQuantum int64 // ns added to the clock by each Now() call
	CapturePC  bool  // record the application call site of every yield
	// Preemption injection: after its operation has been applied, a granted task
	// is, with probability 1/PreemptEvery, not resumed but left parked for
	// PreemptNs of simulated time (a descheduled goroutine: the effect of the
	// operation is visible, the instructions after it run later). Tape choice;
	// 0 on the tape = no preemption.
	PreemptEvery int
	PreemptNs    int64
	// Site-directed stalls: a run designates roughly one in SlowSiteMod of the
	// program's call sites (hash of "pkg.Func:line" and SlowSiteSalt) as slow. A
	// task that has just performed a preemptible operation at a slow site is,
	// by a tape choice (1 = stall, probability 1/SlowSiteCoin when recording), left parked
	// for SlowSiteNs of simulated time, at most SlowSiteMax times per world and
	// SlowSitePer times per site (0 = no per-site limit).
	// Where preemption injection pauses a task at a random instant, this pauses
	// tasks repeatedly at the same few program points, which is what opens a
	// specific two-statement window wide enough for timers, collectors and
	// other callers to run complete activities inside it. Needs CapturePC.
	SlowSiteMod  int
	SlowSiteSalt uint64
	SlowSiteNs   int64
	SlowSiteMax  int
	SlowSitePer  int
	SlowSiteCoin int // stall with probability 1/SlowSiteCoin at a slow site (0 = 3)
	// Jitter: every preemptible operation (lock, file and clock operations) is
	// followed by a pause of k/8 * JitterNs of simulated time, k in 0..7 a tape
	// choice. Lock operations otherwise take no simulated time at all, so that
	// under a latency model a task could never complete a file operation inside
	// another task's lock-only window; with jitter, all tasks advance at
	// comparable, randomly varying speeds on the simulated clock and periodic
	// timers fire in the middle of everything.
	JitterNs int64
}

// Op is a request posted by a task at a yield point.
type Op struct {
	Kind   string
	Ready  func() bool // nil: always ready
	Apply  func()      // runs on the scheduler goroutine when the task is granted
	WakeAt int64       // not ready before this simulated instant (0: none)
	PC     uintptr
	// channel ops (readiness computed by the scheduler with reflection)
	chans []chanWait
	deflt bool
	sel   int  // chosen case, -1 = default
	hand  bool // value was handed over by an unbuffered sender
	val   any  // handed value
	okRcv bool // handed receive "ok"
}

// Task is one simulated goroutine.
type Task struct {
	ID     int
	Name   string
	Parent int
	wake   chan struct{}
	op     *Op
	fn     func()
	killed bool
	exited bool
	prio   int // PCT priority
	Blocks int // number of times this task was found not ready (for probes)
}

// TraceEvent is one scheduling grant.
type TraceEvent struct {
	Step int
	Task int
	Kind string
	PC   uintptr
	Now  int64
}

type timer struct {
	at   int64
	seq  uint64
	fire func()
	dead bool
	idx  int
}

// World is one simulated process.
type World struct {
	Cfg   Config
	Tape  *Tape
	tasks []*Task
	cur   *Task
	now   int64
	seq   uint64
	heap  []*timer
	Steps int
	dead  bool
	reqCh chan *Task

	outcome    Outcome
	stopReason string
	stopping   bool
	PanicVal   any
	PanicStack string
	PanicTask  int

	Trace       []TraceEvent
	SchedHash   uint64 // rolling hash over (task, kind) of context switches
	Switches    int
	Preemptions int
	Stalls      int // disk stalls injected by the harness's latency model
	SiteStalls  int // site-directed stalls
	Jitters     int // jitter pauses
	slowSites   map[uintptr]bool
	siteStalled map[uintptr]int

	// Ext lets the other sim packages attach their per-world state.
	FS any

	joinAddr int // address used for the end-of-run join edge (race builds)

	pctChange []int // PCT priority change points (step numbers)
	rrLeft    int

	// StepHook, if set, runs on the scheduler goroutine after every grant
	// decision and before the task is woken (used for invariants and probes).
	StepHook func(w *World, t *Task, kind string)

	// Stuck lists the parked tasks when the run ended in deadlock.
	Stuck []StuckTask
}

// StuckTask describes a parked task at the end of a run.
type StuckTask struct {
	Task int
	Name string
	Kind string
	PC   uintptr
}

var cur *World

// Current returns the running world or nil.
func Current() *World { return cur }

// InTask reports whether the caller runs as a task of a live world.
func InTask() bool { return cur != nil && cur.cur != nil && !cur.dead }

// Now returns the simulated clock (ns).
func (w *World) Now() int64 { return w.now }

// CurTask returns the running task.
func (w *World) CurTask() *Task { return w.cur }

// Tasks returns the task table.
func (w *World) Tasks() []*Task { return w.tasks }

// LiveTasks returns the tasks that have not exited.
func (w *World) LiveTasks() []*Task {
	var r []*Task
	for _, t := range w.tasks {
		if !t.exited {
			r = append(r, t)
		}
	}
	return r
}

// Pending returns the kind and pc of the op a parked task waits on.
func (t *Task) Pending() (string, uintptr) {
	if t.op == nil {
		return "", 0
	}
	return t.op.Kind, t.op.PC
}

// Exited reports whether the task function has returned.
func (t *Task) Exited() bool { return t.exited }

// Result of a run.
type Result struct {
	Outcome    Outcome
	Reason     string
	Steps      int
	SimTime    int64
	PanicVal   any
	PanicStack string
	PanicTask  int
	SchedHash  uint64
	Switches   int
	Stuck      []StuckTask
	Tasks      int
}

// Run executes main as task 0 of a fresh world and returns when the world ends.
// The calling goroutine becomes the scheduler.
func Run(cfg Config, tape *Tape, setup func(w *World), main func()) (*World, Result) {
	if cur != nil {
		panic("simrt: nested Run")
	}
	if cfg.MaxSteps == 0 {
		cfg.MaxSteps = 200000
	}
	if cfg.NowQuantum == 0 {
		cfg.NowQuantum = 1000
	}
	w := &World{Cfg: cfg, Tape: tape, reqCh: make(chan *Task)}
	w.now = 0
	cur = w
	if setup != nil {
		setup(w)
	}
	w.initStrategy()
	t0 := w.newTask("main", main, -1)
	w.spawn(t0)
	raceDisable()
	w.loop(t0)
	w.killAll()
	w.dead = true
	cur = nil
	raceEnable()
	raceAcquire(unsafe.Pointer(&w.joinAddr))
	res := Result{
		Outcome: w.outcome, Reason: w.stopReason, Steps: w.Steps, SimTime: w.now,
		PanicVal: w.PanicVal, PanicStack: w.PanicStack, PanicTask: w.PanicTask,
		SchedHash: w.SchedHash, Switches: w.Switches, Stuck: w.Stuck, Tasks: len(w.tasks),
	}
	return w, res
}

func (w *World) newTask(name string, fn func(), parent int) *Task {
	t := &Task{ID: len(w.tasks), Name: name, Parent: parent, wake: make(chan struct{}), fn: fn}
	t.op = &Op{Kind: "start"}
	w.tasks = append(w.tasks, t)
	w.assignPrio(t)
	return t
}

// spawn starts the goroutine of t; it parks immediately until first granted.
func (w *World) spawn(t *Task) {
	go func() {
		raceDisable()
		<-t.wake
		raceEnable()
		defer func() {
			r := recover()
			if r != nil && !t.killed {
				w.PanicVal = r
				w.PanicStack = string(debug.Stack())
				w.PanicTask = t.ID
				w.stop(OutPanic, fmt.Sprintf("task %d (%s) panicked: %v", t.ID, t.Name, r))
			}
			t.exited = true
			t.op = &Op{Kind: "exit"}
			raceReleaseMerge(unsafe.Pointer(&w.joinAddr))
			raceDisable()
			w.reqCh <- t
		}()
		if t.killed {
			return
		}
		t.fn()
	}()
}

// stop marks the world as ending; effective at the next scheduler iteration.
func (w *World) stop(o Outcome, reason string) {
	if w.stopping {
		return
	}
	w.stopping = true
	w.outcome = o
	w.stopReason = reason
}

// Stop ends the run (callable from Apply/hooks on the scheduler goroutine or
// from the running task).
func (w *World) Stop(o Outcome, reason string) { w.stop(o, reason) }

func (w *World) loop(first *Task) {
	// grant the first task
	w.grant(first)
	if w.stopping {
		return
	}
	for {
		t := <-w.reqCh
		_ = t
		if w.cur != nil && w.cur.exited && w.cur.ID == 0 && !w.stopping {
			w.stop(OutDone, "main returned")
		}
		if w.stopping {
			return
		}
		if w.Steps >= w.Cfg.MaxSteps {
			w.stop(OutCapped, "step budget exhausted")
			return
		}
		if w.Cfg.MaxSimTime != 0 && w.now > w.Cfg.MaxSimTime {
			w.stop(OutCapped, "simulated-time budget exhausted")
			return
		}
		next := w.pick()
		if next == nil {
			return
		}
		w.grant(next)
		if w.stopping {
			return
		}
	}
}

// pick chooses the next task to run, advancing the clock when nothing is
// runnable. Returns nil when the world ends (deadlock / stop).
func (w *World) pick() *Task {
	var runnable []*Task
	idle := 0
	for {
		// every task blocked while periodic timers keep firing (a ticker whose
		// owner is stuck elsewhere): the clock would advance forever. After two
		// million consecutive timer-only rounds this is reported as what it is.
		if idle++; idle > 2000000 {
			w.recordStuck()
			w.stop(OutDeadlock, "no runnable task; only periodic timers keep firing")
			return nil
		}
		w.fireTimers()
		if w.stopping {
			return nil
		}
		runnable = runnable[:0]
		// current task first so that choice 0 means "no context switch"
		if c := w.cur; c != nil && !c.exited && w.ready(c) {
			runnable = append(runnable, c)
		}
		for _, t := range w.tasks {
			if t.exited || t == w.cur {
				continue
			}
			if w.ready(t) {
				runnable = append(runnable, t)
			} else {
				t.Blocks++
			}
		}
		if len(runnable) > 0 {
			break
		}
		// nothing runnable: advance the clock to the next event
		at, ok := w.nextEvent()
		if !ok {
			w.recordStuck()
			w.stop(OutDeadlock, "no runnable task and no pending timer")
			return nil
		}
		if at > w.now {
			w.now = at
		}
		if w.Cfg.MaxSimTime != 0 && w.now > w.Cfg.MaxSimTime {
			w.stop(OutCapped, "simulated-time budget exhausted")
			return nil
		}
	}
	k := 0
	if len(runnable) > 1 {
		k = w.chooseTask(runnable)
	}
	return runnable[k]
}

// preemptible: operations after which a task may be held back. Only those whose
// effect is complete once applied by the scheduler (locks, file operations, clock
// and context reads); never channel operations, select, go or close, where the
// task itself still has to perform the real operation it was granted.
func preemptible(kind string) bool {
	switch kind {
	case "Lock", "Unlock", "TryLock", "RW.Lock", "RW.Unlock", "RW.RLock", "RW.RUnlock", "RW.Lock.announce",
		"open", "create", "truncopen", "close", "read", "readat", "write", "writeat", "truncate", "seek", "stat", "sync",
		"rename", "remove", "mkdir", "readdir", "time.Now", "ctx.Err":
		return true
	}
	return false
}

// Blocked reports whether the parked task t cannot proceed now (scheduler side).
func (w *World) Blocked(t *Task) bool { return t.op != nil && !w.ready(t) }

func (w *World) ready(t *Task) bool {
	op := t.op
	if op == nil {
		return false
	}
	if op.WakeAt > w.now {
		return false
	}
	if op.chans != nil {
		return w.chanReady(t, op)
	}
	if op.Ready != nil {
		return op.Ready()
	}
	return true
}

func (w *World) nextEvent() (int64, bool) {
	var at int64
	ok := false
	for len(w.heap) > 0 && w.heap[0].dead {
		w.heapPop()
	}
	if len(w.heap) > 0 {
		at, ok = w.heap[0].at, true
	}
	for _, t := range w.tasks {
		if t.exited || t.op == nil || t.op.WakeAt <= w.now {
			continue
		}
		// a sleeping task only counts if the rest of its condition could hold
		if !ok || t.op.WakeAt < at {
			at, ok = t.op.WakeAt, true
		}
	}
	return at, ok
}

func (w *World) fireTimers() {
	for len(w.heap) > 0 {
		tm := w.heap[0]
		if tm.dead {
			w.heapPop()
			continue
		}
		if tm.at > w.now {
			return
		}
		w.heapPop()
		tm.dead = true
		tm.fire()
	}
}

func (w *World) grant(t *Task) {
	w.Steps++
	op := t.op
	if w.cur != t {
		w.Switches++
		w.SchedHash = (w.SchedHash ^ uint64(t.ID+1)) * 1099511628211
		if op != nil {
			for i := 0; i < len(op.Kind); i++ {
				w.SchedHash = (w.SchedHash ^ uint64(op.Kind[i])) * 1099511628211
			}
		}
	}
	w.cur = t
	if op != nil {
		if op.chans != nil {
			w.chanApply(t, op)
		}
		if op.Apply != nil {
			op.Apply()
		}
		if w.Cfg.Trace {
			w.Trace = append(w.Trace, TraceEvent{Step: w.Steps, Task: t.ID, Kind: op.Kind, PC: op.PC, Now: w.now})
		}
	}
	t.op = nil
	if w.StepHook != nil {
		k := ""
		if op != nil {
			k = op.Kind
		}
		w.StepHook(w, t, k)
	}
	if w.stopping {
		// the effect that ended the world (e.g. a crash) has been applied; the
		// task must not continue. It stays parked; killAll reaps it.
		return
	}
	var park int64
	if w.Cfg.PreemptEvery > 0 && op != nil && preemptible(op.Kind) {
		pe := w.Cfg.PreemptEvery
		if w.Tape.Choose(2, func(r *Rand) int {
			if r.Intn(pe) == 0 {
				return 1
			}
			return 0
		}) == 1 {
			w.Preemptions++
			park = w.Cfg.PreemptNs
		}
	}
	if park == 0 && w.Cfg.JitterNs > 0 && op != nil && preemptible(op.Kind) {
		if k := w.Tape.Choose(8, func(r *Rand) int { return r.Intn(8) }); k > 0 {
			park = int64(k) * w.Cfg.JitterNs / 8
			w.Jitters++
		}
	}
	if park == 0 && w.Cfg.SlowSiteMod > 0 && op != nil && op.PC != 0 && w.SiteStalls < w.Cfg.SlowSiteMax && preemptible(op.Kind) && w.slowSite(op.PC) {
		if w.Cfg.SlowSitePer == 0 || w.siteStalled[op.PC] < w.Cfg.SlowSitePer {
			coin := w.Cfg.SlowSiteCoin
			if coin <= 0 {
				coin = 3
			}
			if w.Tape.Choose(2, func(r *Rand) int {
				if r.Intn(coin) == 0 {
					return 1
				}
				return 0
			}) == 1 {
				w.SiteStalls++
				if w.siteStalled == nil {
					w.siteStalled = map[uintptr]int{}
				}
				w.siteStalled[op.PC]++
				park = w.Cfg.SlowSiteNs
			}
		}
	}
	if park > 0 {
		t.op = &Op{Kind: "preempted", WakeAt: w.now + park, PC: op.PC}
		// hand the baton back to the scheduler loop: the task stays parked
		w.cur = nil
		next := w.pick()
		if next == nil {
			return
		}
		w.grant(next)
		return
	}
	t.wake <- struct{}{}
}

// SiteStallCounts returns "site" -> number of stalls (diagnostics).
func (w *World) SiteStallCounts() map[string]int {
	out := map[string]int{}
	for pc, n := range w.siteStalled {
		out[SiteOf(pc)] += n
	}
	return out
}

// slowSite reports whether the call site of pc is one of this run's slow sites.
// Scheduler side.
func (w *World) slowSite(pc uintptr) bool {
	if v, ok := w.slowSites[pc]; ok {
		return v
	}
	if w.slowSites == nil {
		w.slowSites = map[uintptr]bool{}
	}
	// no fmt here: this runs on the scheduler goroutine, whose synchronisation is
	// hidden from the race detector, and fmt's printer pool would hand objects
	// between it and the tasks without a visible happens-before edge
	h := w.Cfg.SlowSiteSalt ^ 0xcbf29ce484222325
	if f := runtime.FuncForPC(pc - 1); f != nil {
		name := f.Name()
		for i := 0; i < len(name); i++ {
			h = (h ^ uint64(name[i])) * 1099511628211
		}
		_, line := f.FileLine(pc - 1)
		h = (h ^ uint64(line)) * 1099511628211
	}
	v := SplitMix(h)%uint64(w.Cfg.SlowSiteMod) == 0
	w.slowSites[pc] = v
	return v
}

func (w *World) recordStuck() {
	for _, t := range w.tasks {
		if t.exited {
			continue
		}
		k, pc := t.Pending()
		w.Stuck = append(w.Stuck, StuckTask{Task: t.ID, Name: t.Name, Kind: k, PC: pc})
	}
}

// killAll unwinds every remaining task, one at a time, in id order.
func (w *World) killAll() {
	w.dead = true
	if w.Stuck == nil {
		w.recordStuck()
	}
	for _, t := range w.tasks {
		if t.exited {
			continue
		}
		t.killed = true
		t.wake <- struct{}{}
		for {
			x := <-w.reqCh
			if x == t && t.exited {
				break
			}
		}
	}
}

// Yield parks the calling task on op until the scheduler grants it.
func Yield(op *Op) {
	w := cur
	if w == nil || w.cur == nil {
		// no world (package initialisation, harness code): act immediately
		if op.Ready != nil && !op.Ready() {
			panic("simrt: blocking operation outside a simulated world: " + op.Kind)
		}
		if op.Apply != nil {
			op.Apply()
		}
		return
	}
	t := w.cur
	if w.dead || t.killed {
		runtime.Goexit()
	}
	if op.PC == 0 && w.Cfg.CapturePC {
		op.PC = callerPC()
	}
	t.op = op
	raceDisable()
	w.reqCh <- t
	<-t.wake
	raceEnable()
	if t.killed {
		runtime.Goexit()
	}
}

// Sched is a plain yield point.
func Sched(kind string) { Yield(&Op{Kind: kind}) }

// Go starts fn as a new task.
func Go(site string, fn func()) {
	w := cur
	if w == nil || w.cur == nil {
		panic("simrt: go statement outside a simulated world at " + site)
	}
	if w.dead || w.cur.killed {
		runtime.Goexit()
	}
	parent := w.cur
	var nt *Task
	Yield(&Op{Kind: "go", Apply: func() {
		nt = w.newTask(site, fn, parent.ID)
	}})
	// the real go statement is executed by the parent so that the race detector
	// sees the usual fork edge
	w.spawn(nt)
}

// Sleep parks the calling task for d simulated nanoseconds.
func Sleep(d int64) {
	w := cur
	if w == nil || w.cur == nil || d <= 0 {
		if w != nil && w.cur != nil {
			Sched("sleep0")
		}
		return
	}
	op := &Op{Kind: "sleep"}
	op.Apply = nil
	// WakeAt must be computed by the scheduler at post time; now is only read here
	op.WakeAt = w.now + d
	Yield(op)
}

// AdvanceClock moves the virtual clock forward by d ns (scheduler goroutine).
func (w *World) AdvanceClock(d int64) {
	if d > 0 {
		w.now += d
	}
}

// SpawnFromScheduler creates a task from a timer callback.
func (w *World) SpawnFromScheduler(name string, fn func()) {
	t := w.newTask(name, fn, -1)
	w.spawn(t)
}

// AddTimer schedules fire to run on the scheduler goroutine at simulated time
// at. Must be called on the scheduler goroutine (from an Apply).
func (w *World) AddTimer(at int64, fire func()) *timer {
	w.seq++
	tm := &timer{at: at, seq: w.seq, fire: fire}
	w.heapPush(tm)
	return tm
}

// CancelTimer deactivates a timer; reports whether it was still pending.
func (w *World) CancelTimer(tm *timer) bool {
	if tm == nil || tm.dead {
		return false
	}
	tm.dead = true
	return true
}

// Timer is the opaque handle of a pending timer event.
type Timer = timer

func (w *World) heapLess(i, j int) bool {
	a, b := w.heap[i], w.heap[j]
	if a.at != b.at {
		return a.at < b.at
	}
	return a.seq < b.seq
}

func (w *World) heapPush(tm *timer) {
	w.heap = append(w.heap, tm)
	i := len(w.heap) - 1
	for i > 0 {
		p := (i - 1) / 2
		if !w.heapLess(i, p) {
			break
		}
		w.heap[i], w.heap[p] = w.heap[p], w.heap[i]
		i = p
	}
}

func (w *World) heapPop() *timer {
	n := len(w.heap)
	top := w.heap[0]
	w.heap[0] = w.heap[n-1]
	w.heap = w.heap[:n-1]
	n--
	i := 0
	for {
		l, r, m := 2*i+1, 2*i+2, i
		if l < n && w.heapLess(l, m) {
			m = l
		}
		if r < n && w.heapLess(r, m) {
			m = r
		}
		if m == i {
			break
		}
		w.heap[i], w.heap[m] = w.heap[m], w.heap[i]
		i = m
	}
	return top
}

// PendingTimers returns the number of live timers.
func (w *World) PendingTimers() int {
	n := 0
	for _, t := range w.heap {
		if !t.dead {
			n++
		}
	}
	return n
}

//go:noinline
func callerPC() uintptr {
	// innermost frame outside the simulator packages
	var pcs [12]uintptr
	n := runtime.Callers(3, pcs[:])
	frames := runtime.CallersFrames(pcs[:n])
	for {
		f, more := frames.Next()
		if f.Function != "" && !strings.HasPrefix(f.Function, "verif/sim/sim") {
			return f.PC
		}
		if !more {
			break
		}
	}
	if n > 0 {
		return pcs[0]
	}
	return 0
}

// SiteOf renders a pc as "pkg.Func:line".
func SiteOf(pc uintptr) string {
	if pc == 0 {
		return "?"
	}
	f := runtime.FuncForPC(pc - 1)
	if f == nil {
		return "?"
	}
	_, line := f.FileLine(pc - 1)
	name := f.Name()
	if i := strings.LastIndex(name, "/"); i >= 0 {
		name = name[i+1:]
	}
	return fmt.Sprintf("%s:%d", name, line)
}

// FuncOf returns the function name of a pc (without package path prefix).
func FuncOf(pc uintptr) string {
	if pc == 0 {
		return "?"
	}
	f := runtime.FuncForPC(pc - 1)
	if f == nil {
		return "?"
	}
	name := f.Name()
	if i := strings.LastIndex(name, "/"); i >= 0 {
		name = name[i+1:]
	}
	return name
}

// FormatTrace renders the tail of the trace.
func (w *World) FormatTrace(max int) []string {
	tr := w.Trace
	if max > 0 && len(tr) > max {
		tr = tr[len(tr)-max:]
	}
	out := make([]string, 0, len(tr))
	for _, e := range tr {
		out = append(out, fmt.Sprintf("step=%d t=%dns task=%d %s @%s", e.Step, e.Now, e.Task, e.Kind, SiteOf(e.PC)))
	}
	return out
}

// SortedKeys is a helper for deterministic iteration in harness code.
func SortedKeys[K ~string | ~int | ~uint32 | ~uint64 | ~int64, V any](m map[K]V) []K {
	ks := make([]K, 0, len(m))
	for k := range m {
		ks = append(ks, k)
	}
	sort.Slice(ks, func(i, j int) bool { return ks[i] < ks[j] })
	return ks
}
