//go:build race && !passthrough

package simrt

import (
	"runtime"
	"unsafe"
)

const RaceEnabled = true

func raceDisable()                      { runtime.RaceDisable() }
func raceEnable()                       { runtime.RaceEnable() }
func raceAcquire(p unsafe.Pointer)      { runtime.RaceAcquire(p) }
func raceReleaseMerge(p unsafe.Pointer) { runtime.RaceReleaseMerge(p) }
func RaceAcquire(p unsafe.Pointer)      { runtime.RaceAcquire(p) }
func RaceRelease(p unsafe.Pointer)      { runtime.RaceRelease(p) }
func RaceReleaseMerge(p unsafe.Pointer) { runtime.RaceReleaseMerge(p) }
func RaceErrors() int                   { return runtime.RaceErrors() }
