//go:build !race && !passthrough

package simrt

import "unsafe"

const RaceEnabled = false

func raceDisable()                      {}
func raceEnable()                       {}
func raceAcquire(p unsafe.Pointer)      {}
func raceReleaseMerge(p unsafe.Pointer) {}
func RaceAcquire(p unsafe.Pointer)      {}
func RaceRelease(p unsafe.Pointer)      {}
func RaceReleaseMerge(p unsafe.Pointer) {}
func RaceErrors() int                   { return 0 }
