//go:build !passthrough

package simrt

import (
	"cmp"
	"reflect"
	"runtime"
	"slices"
)

// Channel operations. Channel values stay real Go channels; what the simulator
// owns is blocking: a task never blocks inside the Go runtime on a channel. It
// parks in the scheduler until the operation can complete without blocking,
// and performs the real (non-blocking) operation once granted, so the race
// detector sees the channel's own happens-before edges.
//
// Buffered channels: readiness is len/cap. Closed channels: detected with a
// non-blocking receive that can only succeed on a closed channel (len==0 and no
// sender is ever blocked inside the runtime, because every send goes through
// Send). Unbuffered channels: sender-driven rendezvous through the scheduler.

type chanWait struct {
	ch   reflect.Value // zero Value for a nil channel
	send bool
	val  any // value to send (unbuffered hand-over only)
}

func mkWait(ch any, send bool, v any) chanWait {
	rv := reflect.ValueOf(ch)
	if !rv.IsValid() || rv.IsNil() {
		return chanWait{send: send}
	}
	return chanWait{ch: rv, send: send, val: v}
}

// closedProbe reports whether ch (with len 0) is closed, without consuming.
func closedProbe(ch reflect.Value) bool {
	if ch.Type().ChanDir()&reflect.RecvDir == 0 {
		return false
	}
	// TryRecv returns ok=false both for "would block" (x invalid) and for
	// "closed" (x is a valid zero value).
	x, ok := ch.TryRecv()
	if ok {
		panic("simrt: closedProbe consumed a value")
	}
	return x.IsValid()
}

// caseReady reports whether case i of op can proceed now.
func (w *World) caseReady(self *Task, cw *chanWait) bool {
	if !cw.ch.IsValid() {
		return false // nil channel: never
	}
	ch := cw.ch
	if cw.send {
		if ch.Cap() > 0 {
			if ch.Len() < ch.Cap() {
				return true
			}
			return false
		}
		// unbuffered: ready iff some other task is parked receiving on it
		return w.findReceiver(self, ch) != nil
	}
	if ch.Len() > 0 {
		return true
	}
	return closedProbe(ch)
}

func (w *World) findReceiver(self *Task, ch reflect.Value) *Task {
	p := ch.Pointer()
	for _, t := range w.tasks {
		if t == self || t.exited || t.op == nil || t.op.hand {
			continue
		}
		for i := range t.op.chans {
			c := &t.op.chans[i]
			if !c.send && c.ch.IsValid() && c.ch.Pointer() == p {
				return t
			}
		}
	}
	return nil
}

func (w *World) chanReady(t *Task, op *Op) bool {
	if op.hand {
		return true
	}
	for i := range op.chans {
		if w.caseReady(t, &op.chans[i]) {
			return true
		}
	}
	return op.deflt
}

// chanApply runs at grant time: decides which case proceeds.
func (w *World) chanApply(t *Task, op *Op) {
	if op.hand {
		return // sel/val already set by the sender
	}
	var ready []int
	for i := range op.chans {
		if w.caseReady(t, &op.chans[i]) {
			ready = append(ready, i)
		}
	}
	if len(ready) == 0 {
		op.sel = -1
		return
	}
	k := 0
	if len(ready) > 1 {
		k = w.Tape.Choose(len(ready), nil)
	}
	op.sel = ready[k]
	cw := &op.chans[op.sel]
	if cw.send && cw.ch.Cap() == 0 {
		// rendezvous: hand the value to a parked receiver
		r := w.findReceiver(t, cw.ch)
		p := cw.ch.Pointer()
		for i := range r.op.chans {
			c := &r.op.chans[i]
			if !c.send && c.ch.IsValid() && c.ch.Pointer() == p {
				r.op.sel = i
				break
			}
		}
		r.op.hand = true
		r.op.val = cw.val
		r.op.okRcv = true
		op.hand = true // tells the sender not to perform a real send
	}
}

func dead() {
	w := cur
	if w != nil && w.cur != nil && (w.dead || w.cur.killed) {
		runtime.Goexit()
	}
}

func inWorld() bool { return cur != nil && cur.cur != nil }

// Send implements `ch <- v`.
func Send[T any](site string, ch chan<- T, v T) {
	if !inWorld() {
		ch <- v
		return
	}
	op := &Op{Kind: "send@" + site, chans: []chanWait{mkWait(ch, true, v)}}
	Yield(op)
	if op.hand {
		return
	}
	select {
	case ch <- v:
	default:
		panic("simrt: send not ready after grant at " + site)
	}
}

// Recv implements `<-ch`.
func Recv[T any](site string, ch <-chan T) T {
	v, _ := Recv2(site, ch)
	return v
}

// Recv2 implements `v, ok := <-ch`.
func Recv2[T any](site string, ch <-chan T) (T, bool) {
	if !inWorld() {
		v, ok := <-ch
		return v, ok
	}
	op := &Op{Kind: "recv@" + site, chans: []chanWait{mkWait(ch, false, nil)}}
	Yield(op)
	if op.hand {
		v, _ := op.val.(T)
		return v, op.okRcv
	}
	select {
	case v, ok := <-ch:
		return v, ok
	default:
		panic("simrt: receive not ready after grant at " + site)
	}
}

// Close implements close(ch).
func Close[T any](site string, ch chan<- T) {
	if inWorld() {
		Yield(&Op{Kind: "close@" + site})
	}
	close(ch)
}

// SelCase is one communication clause of a select.
type SelCase interface {
	wait() chanWait
	exec(op *Op, site string)
}

// RCase is a receive clause.
type RCase[T any] struct {
	ch  <-chan T
	Val T
	Ok  bool
}

// SCase is a send clause.
type SCase[T any] struct {
	ch chan<- T
	v  T
}

func RecvCase[T any](ch <-chan T) *RCase[T]      { return &RCase[T]{ch: ch} }
func SendCase[T any](ch chan<- T, v T) *SCase[T] { return &SCase[T]{ch: ch, v: v} }
func (c *RCase[T]) wait() chanWait               { return mkWait(c.ch, false, nil) }
func (c *SCase[T]) wait() chanWait               { return mkWait(c.ch, true, c.v) }

func (c *RCase[T]) exec(op *Op, site string) {
	if op.hand {
		c.Val, _ = op.val.(T)
		c.Ok = op.okRcv
		return
	}
	select {
	case v, ok := <-c.ch:
		c.Val, c.Ok = v, ok
	default:
		panic("simrt: select receive not ready after grant at " + site)
	}
}

func (c *SCase[T]) exec(op *Op, site string) {
	if op.hand {
		return
	}
	select {
	case c.ch <- c.v:
	default:
		panic("simrt: select send not ready after grant at " + site)
	}
}

// Select implements a select statement; returns the index of the chosen case
// or -1 for default.
func Select(site string, hasDefault bool, cases ...SelCase) int {
	if !inWorld() {
		panic("simrt: select outside a simulated world at " + site)
	}
	op := &Op{Kind: "select@" + site, deflt: hasDefault, chans: make([]chanWait, len(cases))}
	for i, c := range cases {
		op.chans[i] = c.wait()
	}
	if len(cases) == 0 && !hasDefault {
		op.chans = nil
		op.Ready = func() bool { return false }
	}
	Yield(op)
	if op.sel >= 0 {
		cases[op.sel].exec(op, site)
	}
	return op.sel
}

// MapKeys returns the keys of m in a deterministic order chosen by the tape:
// sorted order permuted by a seeded shuffle (tape value 0 = sorted).
func MapKeys[M ~map[K]V, K cmp.Ordered, V any](site string, m M) []K {
	keys := make([]K, 0, len(m))
	for k := range m {
		keys = append(keys, k)
	}
	slices.Sort(keys)
	if len(keys) > 1 && inWorld() {
		c := mapRangeChoice(site)
		if c != 0 {
			r := NewRand(uint64(c))
			for i := len(keys) - 1; i > 0; i-- {
				j := r.Intn(i + 1)
				keys[i], keys[j] = keys[j], keys[i]
			}
		}
	}
	return keys
}

// mapRangeChoice draws the permutation seed of one map iteration. Non-generic
// on purpose: generic code is instantiated (and race-instrumented) in the
// calling package, and its closures would be seen by the race detector.
func mapRangeChoice(site string) int {
	var c int
	Yield(&Op{Kind: "maprange@" + site, Apply: func() {
		c = cur.Tape.Choose(1<<16, func(r *Rand) int {
			if r.Chance(0.3) {
				return 0
			}
			return r.Intn(1 << 16)
		})
	}})
	return c
}
