//go:build !passthrough

package simrt

// Tape is the record of every choice made during a run. In generate mode
// values come from the PRNG (shaped by the strategy) and are recorded; in replay
// mode they are read back. Missing or out-of-range entries read as 0, which
// always means "the default": keep the current task, first ready select case,
// sorted map order, no fault.
type Tape struct {
	Rec    []uint32
	replay []uint32
	pos    int
	Replay bool
	Rng    *Rand
}

// NewTape returns a generating tape seeded with seed.
func NewTape(seed uint64) *Tape { return &Tape{Rng: NewRand(seed)} }

// ReplayTape returns a tape that replays vals.
func ReplayTape(vals []uint32) *Tape {
	return &Tape{Replay: true, replay: vals, Rng: NewRand(1)}
}

// Choose returns a value in [0,n). gen produces the value in generate mode.
func (t *Tape) Choose(n int, gen func(r *Rand) int) int {
	if n <= 1 {
		return 0
	}
	var v int
	if t.Replay {
		if t.pos < len(t.replay) {
			v = int(t.replay[t.pos])
		}
		t.pos++
		if v >= n || v < 0 {
			v = 0
		}
	} else {
		if gen != nil {
			v = gen(t.Rng)
		} else {
			v = t.Rng.Intn(n)
		}
		if v >= n || v < 0 {
			v = 0
		}
	}
	t.Rec = append(t.Rec, uint32(v))
	return v
}

// Rand is a small deterministic PRNG (splitmix64 / xorshift*).
type Rand struct{ s uint64 }

func NewRand(seed uint64) *Rand {
	r := &Rand{s: seed}
	r.Uint64()
	return r
}

func SplitMix(x uint64) uint64 {
	x += 0x9e3779b97f4a7c15
	z := x
	z = (z ^ (z >> 30)) * 0xbf58476d1ce4e5b9
	z = (z ^ (z >> 27)) * 0x94d049bb133111eb
	return z ^ (z >> 31)
}

func (r *Rand) Uint64() uint64 {
	r.s += 0x9e3779b97f4a7c15
	z := r.s
	z = (z ^ (z >> 30)) * 0xbf58476d1ce4e5b9
	z = (z ^ (z >> 27)) * 0x94d049bb133111eb
	return z ^ (z >> 31)
}

func (r *Rand) Intn(n int) int {
	if n <= 0 {
		return 0
	}
	return int(r.Uint64() % uint64(n))
}

func (r *Rand) Float() float64 { return float64(r.Uint64()>>11) / float64(1<<53) }

// Chance returns true with probability p.
func (r *Rand) Chance(p float64) bool { return r.Float() < p }

// Pick returns a random element index weighted by w.
func (r *Rand) Weighted(w []int) int {
	tot := 0
	for _, x := range w {
		tot += x
	}
	if tot == 0 {
		return 0
	}
	k := r.Intn(tot)
	for i, x := range w {
		if k < x {
			return i
		}
		k -= x
	}
	return len(w) - 1
}

// Strategy shapes the generated schedule choices.
type Strategy struct {
	Kind    string  // "random" | "sticky" | "pct" | "rr"
	Stick   float64 // sticky: probability of continuing the current task
	Depth   int     // pct: number of priority change points
	Horizon int     // pct: expected number of steps
	Quantum int     // rr: yields before switching
}

func (w *World) initStrategy() {
	s := &w.Cfg.Strategy
	if s.Kind == "" {
		s.Kind = "random"
	}
	if s.Kind == "pct" && !w.Tape.Replay {
		if s.Horizon <= 0 {
			s.Horizon = 2000
		}
		for i := 0; i < s.Depth; i++ {
			w.pctChange = append(w.pctChange, 1+w.Tape.Rng.Intn(s.Horizon))
		}
	}
	if s.Kind == "rr" && s.Quantum <= 0 {
		s.Quantum = 3
	}
	w.rrLeft = s.Quantum
}

func (w *World) assignPrio(t *Task) {
	if w.Cfg.Strategy.Kind == "pct" && !w.Tape.Replay {
		t.prio = 1000 + w.Tape.Rng.Intn(1000000)
	}
}

// chooseTask picks an index into runnable (runnable[0] is the current task when
// it is runnable).
func (w *World) chooseTask(runnable []*Task) int {
	n := len(runnable)
	curFirst := runnable[0] == w.cur
	return w.Tape.Choose(n, func(r *Rand) int {
		s := &w.Cfg.Strategy
		switch s.Kind {
		case "sticky":
			if curFirst && r.Chance(s.Stick) {
				return 0
			}
			return r.Intn(n)
		case "pct":
			for _, cp := range w.pctChange {
				if cp == w.Steps && w.cur != nil {
					w.cur.prio = cp // drop below every initial priority
				}
			}
			best := 0
			for i, t := range runnable {
				if t.prio > runnable[best].prio {
					best = i
				}
			}
			return best
		case "rr":
			if curFirst {
				w.rrLeft--
				if w.rrLeft > 0 {
					return 0
				}
				w.rrLeft = s.Quantum
				if n > 1 {
					return 1
				}
				return 0
			}
			w.rrLeft = s.Quantum
			return 0
		default:
			return r.Intn(n)
		}
	})
}

// Choose exposes a tape choice to the other sim packages and to harness code
// running inside the world (uniform).
func (w *World) Choose(n int) int { return w.Tape.Choose(n, nil) }

// ChooseP returns true with probability p (recorded as a 0/1 choice; 0 = false).
func (w *World) ChooseP(p float64) bool {
	return w.Tape.Choose(2, func(r *Rand) int {
		if r.Chance(p) {
			return 1
		}
		return 0
	}) == 1
}
