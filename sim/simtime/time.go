//go:build !passthrough

// Package simtime is an API-compatible replacement of package time running on
// the simulator's virtual clock.
package simtime

import (
	"time"

	"verif/sim/simrt"
)

type (
	Time       = time.Time
	Duration   = time.Duration
	Month      = time.Month
	Weekday    = time.Weekday
	Location   = time.Location
	ParseError = time.ParseError
)

const (
	Nanosecond  = time.Nanosecond
	Microsecond = time.Microsecond
	Millisecond = time.Millisecond
	Second      = time.Second
	Minute      = time.Minute
	Hour        = time.Hour

	RFC3339     = time.RFC3339
	RFC3339Nano = time.RFC3339Nano
	RFC1123     = time.RFC1123
	Kitchen     = time.Kitchen
	DateTime    = time.DateTime
)

var (
	UTC   = time.UTC
	Local = time.Local

	Date          = time.Date
	Unix          = time.Unix
	UnixMilli     = time.UnixMilli
	UnixMicro     = time.UnixMicro
	Parse         = time.Parse
	ParseDuration = time.ParseDuration
)

// Epoch is the instant at which every simulated world starts.
var Epoch = time.Date(2024, 1, 1, 0, 0, 0, 0, time.UTC)

// At converts simulated nanoseconds to a Time.
func At(ns int64) Time { return Epoch.Add(time.Duration(ns)) }

// Now returns the virtual time. Each call is a yield point and advances the
// clock by a small quantum so that elapsed times are never exactly zero.
func Now() Time {
	w := simrt.Current()
	if w == nil || !simrt.InTask() {
		if w != nil {
			return At(w.Now())
		}
		return Epoch
	}
	var ns int64
	simrt.Yield(&simrt.Op{Kind: "time.Now", Apply: func() {
		w.AdvanceClock(w.Cfg.NowQuantum)
		ns = w.Now()
	}})
	return At(ns)
}

func Since(t Time) Duration { return Now().Sub(t) }
func Until(t Time) Duration { return t.Sub(Now()) }

func Sleep(d Duration) { simrt.Sleep(int64(d)) }

// Timer mirrors time.Timer.
type Timer struct {
	C  <-chan Time
	c  chan Time
	tm *simrt.Timer
	f  func()
}

func NewTimer(d Duration) *Timer {
	c := make(chan Time, 1)
	t := &Timer{C: c, c: c}
	w := simrt.Current()
	simrt.Yield(&simrt.Op{Kind: "NewTimer", Apply: func() { t.arm(w, d) }})
	return t
}

func (t *Timer) arm(w *simrt.World, d Duration) {
	if w == nil {
		return
	}
	if d < 0 {
		d = 0
	}
	at := w.Now() + int64(d)
	t.tm = w.AddTimer(at, func() {
		if t.f != nil {
			f := t.f
			w.SpawnFromScheduler("AfterFunc", f)
			return
		}
		select {
		case t.c <- At(w.Now()):
		default:
		}
	})
}

// Stop prevents the Timer from firing; reports whether it was active. As with
// Go >= 1.23 timers, no stale value is left in C after Stop returns.
func (t *Timer) Stop() bool {
	w := simrt.Current()
	var active bool
	simrt.Yield(&simrt.Op{Kind: "Timer.Stop", Apply: func() {
		if w == nil {
			return
		}
		active = w.CancelTimer(t.tm)
		select {
		case <-t.c:
		default:
		}
	}})
	return active
}

func (t *Timer) Reset(d Duration) bool {
	w := simrt.Current()
	var active bool
	simrt.Yield(&simrt.Op{Kind: "Timer.Reset", Apply: func() {
		if w == nil {
			return
		}
		active = w.CancelTimer(t.tm)
		select {
		case <-t.c:
		default:
		}
		t.arm(w, d)
	}})
	return active
}

func After(d Duration) <-chan Time { return NewTimer(d).C }

func AfterFunc(d Duration, f func()) *Timer {
	t := &Timer{f: f}
	w := simrt.Current()
	simrt.Yield(&simrt.Op{Kind: "AfterFunc", Apply: func() { t.arm(w, d) }})
	return t
}

// Ticker mirrors time.Ticker.
type Ticker struct {
	C      <-chan Time
	c      chan Time
	tm     *simrt.Timer
	period Duration
}

func NewTicker(d Duration) *Ticker {
	if d <= 0 {
		panic("non-positive interval for NewTicker")
	}
	c := make(chan Time, 1)
	t := &Ticker{C: c, c: c, period: d}
	w := simrt.Current()
	simrt.Yield(&simrt.Op{Kind: "NewTicker", Apply: func() { t.arm(w) }})
	return t
}

func (t *Ticker) arm(w *simrt.World) {
	if w == nil {
		return
	}
	t.tm = w.AddTimer(w.Now()+int64(t.period), func() {
		select {
		case t.c <- At(w.Now()):
		default: // tick dropped, as the real ticker does for slow receivers
		}
		t.arm(w)
	})
}

func (t *Ticker) Stop() {
	w := simrt.Current()
	simrt.Yield(&simrt.Op{Kind: "Ticker.Stop", Apply: func() {
		if w != nil {
			w.CancelTimer(t.tm)
		}
	}})
}

func (t *Ticker) Reset(d Duration) {
	if d <= 0 {
		panic("non-positive interval for Ticker.Reset")
	}
	w := simrt.Current()
	simrt.Yield(&simrt.Op{Kind: "Ticker.Reset", Apply: func() {
		if w == nil {
			return
		}
		w.CancelTimer(t.tm)
		t.period = d
		t.arm(w)
	}})
}

func Tick(d Duration) <-chan Time {
	if d <= 0 {
		return nil
	}
	return NewTicker(d).C
}
