//go:build passthrough

// Pass-through variant: plain aliases of package time.
package simtime

import "time"

type (
	Time     = time.Time
	Duration = time.Duration
	Timer    = time.Timer
	Ticker   = time.Ticker
	Month    = time.Month
	Weekday  = time.Weekday
	Location = time.Location
)

const (
	Nanosecond  = time.Nanosecond
	Microsecond = time.Microsecond
	Millisecond = time.Millisecond
	Second      = time.Second
	Minute      = time.Minute
	Hour        = time.Hour
	RFC3339     = time.RFC3339
)

var (
	UTC           = time.UTC
	Now           = time.Now
	Since         = time.Since
	Until         = time.Until
	Sleep         = time.Sleep
	NewTimer      = time.NewTimer
	NewTicker     = time.NewTicker
	After         = time.After
	AfterFunc     = time.AfterFunc
	Tick          = time.Tick
	Date          = time.Date
	Unix          = time.Unix
	Parse         = time.Parse
	ParseDuration = time.ParseDuration
)
