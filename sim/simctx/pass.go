//go:build passthrough

// Pass-through variant: plain aliases of package context.
package simctx

import "context"

type (
	Context    = context.Context
	CancelFunc = context.CancelFunc
)

var (
	Canceled         = context.Canceled
	DeadlineExceeded = context.DeadlineExceeded
	Background       = context.Background
	TODO             = context.TODO
	WithCancel       = context.WithCancel
	WithTimeout      = context.WithTimeout
	WithDeadline     = context.WithDeadline
	WithValue        = context.WithValue
)
