//go:build !passthrough

// Package simctx is an API-compatible replacement of package context whose
// deadlines run on the simulator's virtual clock and whose cancellation is
// applied by the simrt scheduler.
package simctx

import (
	"context"
	"time"

	"verif/sim/simrt"
	"verif/sim/simtime"
)

type (
	Context         = context.Context
	CancelFunc      = context.CancelFunc
	CancelCauseFunc = context.CancelCauseFunc
)

var (
	Canceled         = context.Canceled
	DeadlineExceeded = context.DeadlineExceeded
)

func Background() Context { return context.Background() }
func TODO() Context       { return context.TODO() }

func WithValue(parent Context, key, val any) Context { return context.WithValue(parent, key, val) }
func WithoutCancel(parent Context) Context           { return context.WithoutCancel(parent) }
func Cause(c Context) error                          { return context.Cause(c) }

type simCtx struct {
	parent   Context
	done     chan struct{}
	err      error
	children []*simCtx
	deadline int64 // simulated ns, 0 = none
	hasDL    bool
	tm       *simrt.Timer
}

func (c *simCtx) Deadline() (time.Time, bool) {
	if c.hasDL {
		return simtime.At(c.deadline), true
	}
	return c.parent.Deadline()
}

func (c *simCtx) Done() <-chan struct{} { return c.done }

// Err is a yield point: GC loops poll it, and it is where a cancellation or an
// expired deadline becomes visible.
func (c *simCtx) Err() error {
	var err error
	simrt.Yield(&simrt.Op{Kind: "ctx.Err", Apply: func() {
		c.sync()
		err = c.err
	}})
	return err
}

// sync propagates a foreign (non-simulated) parent's state. Scheduler side.
func (c *simCtx) sync() {
	if c.err != nil {
		return
	}
	if _, ok := c.parent.(*simCtx); ok {
		return // propagation is eager between simulated contexts
	}
	if c.parent != nil && isForeign(c.parent) {
		if perr := c.parent.Err(); perr != nil {
			c.cancel(perr)
		}
	}
}

// isForeign: contexts that are neither ours nor the never-cancelled roots.
func isForeign(p Context) bool {
	if p == context.Background() || p == context.TODO() {
		return false
	}
	return true
}

func (c *simCtx) Value(key any) any { return c.parent.Value(key) }

// cancel runs on the scheduler goroutine.
func (c *simCtx) cancel(err error) {
	if c.err != nil {
		return
	}
	c.err = err
	close(c.done)
	if w := simrt.Current(); w != nil && c.tm != nil {
		w.CancelTimer(c.tm)
	}
	for _, ch := range c.children {
		ch.cancel(err)
	}
	c.children = nil
}

func newCtx(parent Context) *simCtx {
	if parent == nil {
		panic("cannot create context from nil parent")
	}
	return &simCtx{parent: parent, done: make(chan struct{})}
}

// link registers c with its nearest simulated ancestor. Scheduler side.
func (c *simCtx) link() {
	p := c.parent
	for p != nil {
		if sp, ok := p.(*simCtx); ok {
			if sp.err != nil {
				c.cancel(sp.err)
			} else {
				sp.children = append(sp.children, c)
			}
			return
		}
		// walk through value contexts when possible
		type unwrapper interface{ Unwrap() Context }
		if u, ok := p.(unwrapper); ok {
			p = u.Unwrap()
			continue
		}
		break
	}
	c.sync()
}

func WithCancel(parent Context) (Context, CancelFunc) {
	c := newCtx(parent)
	simrt.Yield(&simrt.Op{Kind: "ctx.WithCancel", Apply: c.link})
	return c, func() {
		simrt.Yield(&simrt.Op{Kind: "ctx.cancel", Apply: func() { c.cancel(Canceled) }})
	}
}

func WithCancelCause(parent Context) (Context, CancelCauseFunc) {
	c, cancel := WithCancel(parent)
	return c, func(error) { cancel() }
}

func WithDeadline(parent Context, d time.Time) (Context, CancelFunc) {
	c := newCtx(parent)
	w := simrt.Current()
	simrt.Yield(&simrt.Op{Kind: "ctx.WithDeadline", Apply: func() {
		c.link()
		c.hasDL = true
		c.deadline = int64(d.Sub(simtime.Epoch))
		if pd, ok := parent.Deadline(); ok && pd.Before(d) {
			c.deadline = int64(pd.Sub(simtime.Epoch))
		}
		if c.err != nil || w == nil {
			return
		}
		if c.deadline <= w.Now() {
			c.cancel(DeadlineExceeded)
			return
		}
		c.tm = w.AddTimer(c.deadline, func() { c.cancel(DeadlineExceeded) })
	}})
	return c, func() {
		simrt.Yield(&simrt.Op{Kind: "ctx.cancel", Apply: func() { c.cancel(Canceled) }})
	}
}

func WithTimeout(parent Context, timeout time.Duration) (Context, CancelFunc) {
	w := simrt.Current()
	var now int64
	if w != nil {
		now = w.Now()
	}
	return WithDeadline(parent, simtime.At(now+int64(timeout)))
}

func WithDeadlineCause(parent Context, d time.Time, _ error) (Context, CancelFunc) {
	return WithDeadline(parent, d)
}

func WithTimeoutCause(parent Context, t time.Duration, _ error) (Context, CancelFunc) {
	return WithTimeout(parent, t)
}

func AfterFunc(ctx Context, f func()) (stop func() bool) {
	panic("simctx: AfterFunc not supported under simulation")
}
