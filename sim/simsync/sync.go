//go:build !passthrough

// Package simsync is an API-compatible replacement of package sync whose
// blocking is owned by the simrt scheduler. In -race builds it publishes to the
// race detector exactly the happens-before edges the real primitives would.
package simsync

import (
	"sync"
	"unsafe"

	"verif/sim/simrt"
)

// pass-through re-exports of the parts that need no simulation
type (
	Locker = sync.Locker
	Map    = sync.Map
	Pool   = sync.Pool
)

func OnceFunc(f func()) func() {
	var o Once
	return func() { o.Do(f) }
}

// Mutex mirrors sync.Mutex.
type Mutex struct {
	held  bool
	owner int
	_     [6]byte // keep distinct Mutexes at distinct addresses
}

func (m *Mutex) Lock() {
	if !simrt.InTask() {
		simrt.Yield(&simrt.Op{Kind: "Lock", Ready: func() bool { return !m.held }, Apply: func() { m.held = true }})
		return
	}
	me := simrt.Current().CurTask().ID
	simrt.Yield(&simrt.Op{Kind: "Lock", Ready: func() bool { return !m.held }, Apply: func() { m.held = true; m.owner = me }})
	simrt.RaceAcquire(unsafe.Pointer(m))
}

func (m *Mutex) TryLock() bool {
	ok := false
	simrt.Yield(&simrt.Op{Kind: "TryLock", Apply: func() {
		if !m.held {
			m.held = true
			ok = true
		}
	}})
	if ok {
		simrt.RaceAcquire(unsafe.Pointer(m))
	}
	return ok
}

func (m *Mutex) Unlock() {
	simrt.RaceRelease(unsafe.Pointer(m))
	bad := false
	simrt.Yield(&simrt.Op{Kind: "Unlock", Apply: func() {
		if !m.held {
			bad = true
		}
		m.held = false
	}})
	if bad {
		panic("sync: unlock of unlocked mutex")
	}
}

// RWMutex mirrors sync.RWMutex (writer-preferring: a pending Lock blocks new
// RLocks, so recursive read locking can deadlock exactly as with the real one).
type RWMutex struct {
	writer   bool
	readers  int
	wwaiting int
	rsem     byte // race addresses, as in the real implementation: readerSem / writerSem
	wsem     byte
	_        [2]byte
}

func (m *RWMutex) Lock() {
	// announce, then wait for readers and writer to leave
	simrt.Yield(&simrt.Op{Kind: "RW.Lock.announce", Apply: func() { m.wwaiting++ }})
	simrt.Yield(&simrt.Op{Kind: "RW.Lock",
		Ready: func() bool { return !m.writer && m.readers == 0 },
		Apply: func() { m.writer = true; m.wwaiting-- }})
	simrt.RaceAcquire(unsafe.Pointer(&m.rsem))
	simrt.RaceAcquire(unsafe.Pointer(&m.wsem))
}

func (m *RWMutex) TryLock() bool {
	ok := false
	simrt.Yield(&simrt.Op{Kind: "RW.TryLock", Apply: func() {
		if !m.writer && m.readers == 0 {
			m.writer = true
			ok = true
		}
	}})
	if ok {
		simrt.RaceAcquire(unsafe.Pointer(&m.rsem))
		simrt.RaceAcquire(unsafe.Pointer(&m.wsem))
	}
	return ok
}

func (m *RWMutex) Unlock() {
	simrt.RaceRelease(unsafe.Pointer(&m.rsem))
	bad := false
	simrt.Yield(&simrt.Op{Kind: "RW.Unlock", Apply: func() {
		if !m.writer {
			bad = true
		}
		m.writer = false
	}})
	if bad {
		panic("sync: Unlock of unlocked RWMutex")
	}
}

func (m *RWMutex) RLock() {
	simrt.Yield(&simrt.Op{Kind: "RW.RLock",
		Ready: func() bool { return !m.writer && m.wwaiting == 0 },
		Apply: func() { m.readers++ }})
	simrt.RaceAcquire(unsafe.Pointer(&m.rsem))
}

func (m *RWMutex) TryRLock() bool {
	ok := false
	simrt.Yield(&simrt.Op{Kind: "RW.TryRLock", Apply: func() {
		if !m.writer && m.wwaiting == 0 {
			m.readers++
			ok = true
		}
	}})
	if ok {
		simrt.RaceAcquire(unsafe.Pointer(&m.rsem))
	}
	return ok
}

func (m *RWMutex) RUnlock() {
	simrt.RaceReleaseMerge(unsafe.Pointer(&m.wsem))
	bad := false
	simrt.Yield(&simrt.Op{Kind: "RW.RUnlock", Apply: func() {
		if m.readers <= 0 {
			bad = true
			return
		}
		m.readers--
	}})
	if bad {
		panic("sync: RUnlock of unlocked RWMutex")
	}
}

func (m *RWMutex) RLocker() Locker { return (*rlocker)(m) }

type rlocker RWMutex

func (r *rlocker) Lock()   { (*RWMutex)(r).RLock() }
func (r *rlocker) Unlock() { (*RWMutex)(r).RUnlock() }

// Once mirrors sync.Once.
type Once struct {
	done    bool
	running bool
	_       [2]byte
}

func (o *Once) Do(f func()) {
	run := false
	simrt.Yield(&simrt.Op{Kind: "Once.Do",
		Ready: func() bool { return !o.running },
		Apply: func() {
			if !o.done {
				o.running = true
				run = true
			}
		}})
	if !run {
		simrt.RaceAcquire(unsafe.Pointer(o))
		return
	}
	defer func() {
		simrt.RaceRelease(unsafe.Pointer(o))
		simrt.Yield(&simrt.Op{Kind: "Once.done", Apply: func() { o.running = false; o.done = true }})
	}()
	f()
}

// WaitGroup mirrors sync.WaitGroup.
type WaitGroup struct {
	n int
	_ [4]byte
}

func (wg *WaitGroup) Add(delta int) {
	if delta < 0 {
		simrt.RaceReleaseMerge(unsafe.Pointer(wg))
	}
	neg := false
	simrt.Yield(&simrt.Op{Kind: "WG.Add", Apply: func() {
		wg.n += delta
		if wg.n < 0 {
			neg = true
		}
	}})
	if neg {
		panic("sync: negative WaitGroup counter")
	}
}

func (wg *WaitGroup) Done() { wg.Add(-1) }

func (wg *WaitGroup) Go(f func()) {
	wg.Add(1)
	simrt.Go("WaitGroup.Go", func() {
		defer wg.Done()
		f()
	})
}

func (wg *WaitGroup) Wait() {
	simrt.Yield(&simrt.Op{Kind: "WG.Wait", Ready: func() bool { return wg.n == 0 }})
	simrt.RaceAcquire(unsafe.Pointer(wg))
}

// Cond mirrors sync.Cond.
type Cond struct {
	L       Locker
	waiters []*condWaiter
}

type condWaiter struct{ woken bool }

func NewCond(l Locker) *Cond { return &Cond{L: l} }

func (c *Cond) Wait() {
	cw := &condWaiter{}
	simrt.Yield(&simrt.Op{Kind: "Cond.enq", Apply: func() { c.waiters = append(c.waiters, cw) }})
	c.L.Unlock()
	simrt.Yield(&simrt.Op{Kind: "Cond.Wait", Ready: func() bool { return cw.woken }})
	c.L.Lock()
}

func (c *Cond) Signal() {
	simrt.Yield(&simrt.Op{Kind: "Cond.Signal", Apply: func() {
		if len(c.waiters) > 0 {
			c.waiters[0].woken = true
			c.waiters = c.waiters[1:]
		}
	}})
}

func (c *Cond) Broadcast() {
	simrt.Yield(&simrt.Op{Kind: "Cond.Broadcast", Apply: func() {
		for _, w := range c.waiters {
			w.woken = true
		}
		c.waiters = nil
	}})
}
