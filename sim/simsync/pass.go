//go:build passthrough

// Pass-through variant: plain aliases of package sync.
package simsync

import "sync"

type (
	Locker    = sync.Locker
	Map       = sync.Map
	Pool      = sync.Pool
	Mutex     = sync.Mutex
	RWMutex   = sync.RWMutex
	Once      = sync.Once
	WaitGroup = sync.WaitGroup
	Cond      = sync.Cond
)

var (
	NewCond  = sync.NewCond
	OnceFunc = sync.OnceFunc
)
