package harness

import (
	"bytes"
	"fmt"
	"os"
	"sort"
	"strings"
	"time"

	"github.com/anishathalye/porcupine"

	"verif/sim/simos"
	"verif/sim/simrt"
	"verif/sim/simsync"
)

// E-conc: several client tasks call the store concurrently while the flusher
// (and optionally GC tasks / background collectors) run; the recorded history,
// extended by a final sequential read-back, is checked for linearizability per
// key with porcupine.

func init() {
	engines["conc"] = runConc
	generators["C05"] = genC05
	generators["C06"] = genC06
	generators["C16"] = genC16
}

// genC16: the C05/C06 workloads plus a task calling the storage-size queries
// and resizing the file cache; run in the -race binary.
func genC16(seed uint64, tier string) *Plan {
	r := simrt.NewRand(seed)
	var p *Plan
	if r.Chance(0.3) {
		p = genConcBase(simrt.NewRand(seed^0x1616), false)
	} else {
		p = genC06(seed^0x1616, tier)
	}
	var q []Op
	for i := 0; i < 2+r.Intn(5); i++ {
		q = append(q, Op{K: "sleep", A: 1 + r.Intn(2000)})
		if r.Chance(0.6) {
			q = append(q, Op{K: "sizes"})
		} else {
			q = append(q, Op{K: "cache", A: r.Intn(4)})
		}
	}
	p.Clients = append(p.Clients, q)
	p.X["race"] = 1
	if r.Chance(0.25) {
		// the rate limiter's waiting path must run under the detector too
		p.Cfg.Flusher = true
		p.Cfg.Burst = uint64(32 + r.Intn(300))
		p.Cfg.SyncMs = 1 + r.Intn(20)
		p.X["rate"] = 1 + r.Intn(3000)
	}
	return p
}

// HistOp is one recorded call.
type HistOp struct {
	Client int
	Op     Op
	Call   int64
	Ret    int64
	Res    Res
	Done   bool
}

func genConcBase(r *simrt.Rand, gc bool) *Plan {
	p := &Plan{Engine: "conc", X: map[string]int{}}
	p.Cfg = StoreCfg{Primary: "multihash", Bits: 8}
	if !gc && r.Chance(0.3) {
		p.Cfg.Primary = "CID"
	}
	p.Cfg.Immutable = r.Chance(0.25)
	small := []uint32{16, 32, 64, 100, 300, 1024, 1 << 30}
	p.Cfg.IndexFile = small[r.Intn(len(small))]
	p.Cfg.PrimaryFile = small[r.Intn(len(small))]
	p.Cfg.FileCache = []int{0, 1, 2, 512}[r.Intn(4)]
	p.Cfg.Flusher = r.Chance(0.8)
	p.Cfg.SyncMs = []int{1, 5, 20, 100, 1000}[r.Intn(5)]
	p.Cfg.SyncOnFlush = r.Chance(0.15)
	if r.Chance(0.08) {
		// aged store: file number * limit beyond 32 bits (see StoreCfg.Aged)
		m := p.Cfg.IndexFile
		if p.Cfg.PrimaryFile < m {
			m = p.Cfg.PrimaryFile
		}
		p.Cfg.Aged = int((uint64(1)<<32)/uint64(m)) + r.Intn(3)
	}
	nk := 2 + r.Intn(5)
	p.Keys = GenKeys(r, nk, false)
	// concentrate keys in one or two buckets: overwrite the first digest byte
	nb := 1 + r.Intn(2)
	seen := map[string]bool{}
	for i := range p.Keys {
		p.Keys[i].Digest[0] = byte(7 + i%nb)
		for seen[string(p.Keys[i].Digest)] {
			p.Keys[i].Digest[31]++ // keep the keys distinct
		}
		seen[string(p.Keys[i].Digest)] = true
	}
	nc := 2 + r.Intn(3)
	vseq := 0
	mix := opMix{put: 40, get: 25, has: 5, size: 5, remove: 20}
	if r.Chance(0.3) {
		mix.remove = 0
	}
	for c := 0; c < nc; c++ {
		n := 3 + r.Intn(8)
		// CID primary: callers address one block through CIDs that differ in
		// version/codec but share the multihash (the same index key)
		ops := genSeqOps(r, n, nk, mix, p.Cfg.Primary == "CID", &vseq)
		for i := range ops {
			if ops[i].K == "put" {
				if ops[i].VLen < 4 {
					ops[i].VLen = 4 + r.Intn(40) // unique values: each read attributable to one write
					ops[i].VNil = false
				}
				if ops[i].VLen > 2000 {
					ops[i].VLen = 2000
				}
			}
		}
		// think times
		var withThink []Op
		for _, o := range ops {
			if r.Chance(0.2) {
				withThink = append(withThink, Op{K: "sleep", A: 1 + r.Intn(3000)}) // microseconds
			}
			withThink = append(withThink, o)
		}
		p.Clients = append(p.Clients, withThink)
	}
	if r.Chance(0.5) {
		// explicit flush client
		var fl []Op
		for i := 0; i < 2+r.Intn(5); i++ {
			fl = append(fl, Op{K: "sleep", A: 1 + r.Intn(2000)}, Op{K: "flush"})
		}
		p.Clients = append(p.Clients, fl)
	}
	p.Sim = genSim(r)
	p.Sim.Latency = genLatency(r)
	p.Sim.MaxSteps = 60000
	return p
}

func genC05(seed uint64, tier string) *Plan {
	r := simrt.NewRand(seed)
	return genConcBase(r, false)
}

func genC06(seed uint64, tier string) *Plan {
	r := simrt.NewRand(seed)
	p := genConcBase(r, true)
	p.Cfg.Primary = "multihash"
	small := []uint32{16, 32, 64, 100, 300}
	p.Cfg.PrimaryFile = small[r.Intn(len(small))]
	p.Cfg.IndexFile = small[r.Intn(len(small))]
	if r.Chance(0.4) {
		// background collectors on short simulated intervals
		p.Cfg.GCMs = int64([]int{3, 5, 10, 30, 100}[r.Intn(5)] + r.Intn(10))
		p.Cfg.GCLimitMs = int64([]int{0, 1, 5, 50}[r.Intn(4)])
	} else {
		p.Cfg.GCMs = 1000 * 3600 * 1000
	}
	// explicit GC tasks (never together with the background collectors: two
	// cycles of the same collector running at once is not a supported use)
	background := p.Cfg.GCMs < 1000*3600
	if !background && r.Chance(0.85) {
		var g []Op
		n, think := 2+r.Intn(5), 2000
		if r.Chance(0.5) {
			n, think = 5+r.Intn(12), 600 // collector busy for the whole run
		}
		for i := 0; i < n; i++ {
			g = append(g, Op{K: "sleep", A: 1 + r.Intn(think)}, Op{K: "igc", A: r.Intn(2)})
		}
		p.Clients = append(p.Clients, g)
	}
	if !background && r.Chance(0.85) {
		var g []Op
		n, think := 2+r.Intn(5), 2000
		if r.Chance(0.5) {
			n, think = 5+r.Intn(12), 600
		}
		for i := 0; i < n; i++ {
			g = append(g, Op{K: "sleep", A: 1 + r.Intn(think)}, Op{K: "pgc", A: []int{0, 1, 50, 74, 85, 100}[r.Intn(6)]})
		}
		p.Clients = append(p.Clients, g)
	}
	// readers: lookups are where stale positions are held
	if r.Chance(0.6) {
		var rd []Op
		for i := 0; i < 4+r.Intn(10); i++ {
			if r.Chance(0.3) {
				rd = append(rd, Op{K: "sleep", A: 1 + r.Intn(500)})
			}
			rd = append(rd, Op{K: []string{"get", "get", "has", "size"}[r.Intn(4)], Key: r.Intn(len(p.Keys))})
		}
		p.Clients = append(p.Clients, rd)
	}
	if r.Chance(0.3) && p.Sim.Latency.Kind != "" {
		p.Sim.Latency.StallOp = 20 + r.Intn(300)
		p.Sim.Latency.StallNs = int64(1+r.Intn(50)) * int64(time.Millisecond)
	}
	if r.Chance(0.4) {
		// slow disk: one in k operations stalls long enough for a flush and a GC
		// cycle to complete while a reader sits between its lookup and its read
		p.Sim.Latency.StallEvery = 5 + r.Intn(60)
		p.Sim.Latency.StallNs = int64(1+r.Intn(40)) * int64(time.Millisecond)
		if p.Cfg.SyncMs > 20 {
			p.Cfg.SyncMs = 1 + r.Intn(10)
		}
	}
	return p
}

// concState is shared by the tasks of one concurrent run.
type concState struct {
	p     *Plan
	d     *Driver
	ev    int64
	hists [][]HistOp
	viol  *Violation
	// ledger: each key has exactly one writer; bracket writes with the freelist
	// ledger and check results sequentially per key
	ledger bool
}

func (cs *concState) fail(class, format string, a ...any) {
	if cs.viol == nil {
		cs.viol = &Violation{Prop: cs.p.Prop, Class: class, Msg: fmt.Sprintf(format, a...)}
	}
}

func (cs *concState) client(ci int, ops []Op) {
	d := cs.d
	for i := range ops {
		op := &ops[i]
		switch op.K {
		case "sleep":
			simrt.Sleep(int64(op.A) * 1000)
			continue
		case "igc":
			d.IndexGC(op)
			continue
		case "pgc":
			d.PrimaryGC(op)
			continue
		case "sizes":
			d.St.StorageSize()
			d.St.IndexStorageSize()
			d.St.PrimaryStorageSize()
			d.St.FreelistStorageSize()
			continue
		case "cache":
			d.St.SetFileCacheSize(op.A)
			continue
		}
		cs.ev++
		h := HistOp{Client: ci, Op: *op, Call: cs.ev}
		if cs.ledger && (op.K == "put" || op.K == "remove" || op.K == "reput") {
			before, had := d.ledgerBefore(op)
			h.Res = d.Call(op)
			d.CheckSeq(op, h.Res)
			d.ledgerAfter(op, before, had, h.Res)
		} else if cs.ledger && op.K != "flush" {
			h.Res = d.Call(op)
			d.CheckSeq(op, h.Res)
		} else {
			h.Res = d.Call(op)
		}
		cs.ev++
		h.Ret = cs.ev
		h.Done = true
		cs.hists[ci] = append(cs.hists[ci], h)
		if h.Res.Err != "" && h.Res.Err != "exists" {
			cs.fail("conc/call-error", "client %d: %v returned %q", ci, op, h.Res.Err)
			return
		}
		if h.Res.Err == "exists" && !cs.p.Cfg.Immutable {
			cs.fail("conc/call-error", "client %d: %v returned key-exists in mutable mode", ci, op)
			return
		}
		if cs.viol != nil {
			return
		}
	}
}

func runConc(p *Plan, tape *simrt.Tape, opt RunOpt) *RunOut {
	out := newOut()
	fs := newStoreFS()
	d := NewDriver(p)
	d.staticProbes()
	cs := &concState{p: p, d: d, hists: make([][]HistOp, len(p.Clients)+1)}
	var closeErr error
	raceBefore := simrt.RaceErrors()
	w, res := world(p, tape, fs, opt, nil, func() {
		if err := d.Open(); err != nil {
			cs.fail("open-error", "OpenStore failed: %v", err)
			return
		}
		if rate := p.x("rate", 0); rate > 0 {
			d.St.VerifSetFlushRate(float64(rate))
		}
		var wg simsync.WaitGroup
		for ci := range p.Clients {
			ci := ci
			wg.Add(1)
			simrt.Go(fmt.Sprintf("client%d", ci), func() {
				defer wg.Done()
				cs.client(ci, p.Clients[ci])
			})
		}
		wg.Wait()
		if cs.viol != nil {
			return
		}
		// final: flush, then a sequential read-back of every key (recorded as the
		// last operations of the history)
		if err := d.St.Flush(); err != nil {
			cs.fail("conc/flush-error", "final Flush returned %v", err)
			return
		}
		fin := len(p.Clients)
		for ki := range p.Keys {
			op := Op{K: "get", Key: ki}
			cs.ev++
			h := HistOp{Client: fin, Op: op, Call: cs.ev}
			h.Res = d.Call(&op)
			cs.ev++
			h.Ret = cs.ev
			h.Done = true
			cs.hists[fin] = append(cs.hists[fin], h)
			if h.Res.Err != "" {
				cs.fail("conc/call-error", "final read-back: %v returned %q", op, h.Res.Err)
				return
			}
		}
		closeErr = d.St.Close()
		if p.x("fsck", 0) == 1 && closeErr == nil {
			// quiescent only now: the flusher and the collectors have stopped
			d.RunFsckLoose("after all tasks stopped and Close", true)
		}
		if closeErr != nil || d.Viol != nil || p.x("race", 0) == 1 {
			return
		}
		// what was read back before Close must be what a reopened store holds
		// (nothing acknowledged was left only in memory or lost by the flush
		// pipeline running next to the writers)
		quiet := d.Cfg
		quiet.Flusher = false
		quiet.GCMs = 0
		if err := d.OpenWith(quiet); err != nil {
			cs.fail("conc/reopen-error", "reopen after the concurrent run failed: %v", err)
			return
		}
		for i, h := range cs.hists[fin] {
			op := Op{K: "get", Key: h.Op.Key}
			r := d.Call(&op)
			if r.Err != "" || r.Found != h.Res.Found || (r.Found && !bytes.Equal(r.Val, h.Res.Val)) {
				cs.fail("conc/reopen-content", "key k%d read %s before Close (found=%v) but after reopen: found=%v val=%s err=%q", h.Op.Key, short(h.Res.Val), h.Res.Found, r.Found, short(r.Val), r.Err)
				break
			}
			_ = i
		}
		d.St.Close()
	})
	d.fileProbes(fs)
	out.addFS(fs)
	out.FinalFS = fs
	out.addDriver(d)
	viol := cs.viol
	if viol == nil && d.Viol != nil {
		viol = d.Viol
	}
	if viol == nil && closeErr != nil {
		viol = &Violation{Prop: p.Prop, Class: "conc/close-error", Msg: "Close returned " + closeErr.Error()}
	}
	finish(out, w, res, p, viol, opt)
	var all []HistOp
	for _, h := range cs.hists {
		all = append(all, h...)
	}
	overlapProbes(out, p, all)
	if n := simrt.RaceErrors() - raceBefore; n > 0 {
		out.Probes["race-reports"] += n
		if p.x("race", 0) == 1 {
			out.Viol = &Violation{Prop: p.Prop, Class: "race/data-race", Msg: fmt.Sprintf("the race detector reported %d data race(s) during this run:\n%s", n, raceReportText())}
			out.Inconclusive = ""
		}
	}
	if p.Prop == "C07" && out.Viol != nil && !strings.HasPrefix(out.Viol.Class, "fsck") {
		out.Probes["other-oracle-failed"]++
		out.Viol = nil
	}
	if p.x("race", 0) == 1 {
		// C16 reports only races; other oracles belong to C05/C06
		if out.Viol != nil && out.Viol.Class != "race/data-race" {
			out.Probes["other-oracle-failed"]++
			out.Viol = nil
		}
		out.Probes["race-enabled"] = 0
		if simrt.RaceEnabled {
			out.Probes["race-enabled"] = 1
		}
		out.Sample = fmt.Sprintf("cfg=%+v keys=%d clients=%s strategy=%+v", p.Cfg, len(p.Keys), clientsString(p.Clients), p.Sim.Strategy)
		return out
	}
	if out.Viol == nil && out.Inconclusive == "" && res.Outcome == simrt.OutDone {
		if v, inconcl := checkLinearizable(p, all); v != nil {
			out.Viol = v
		} else if inconcl != "" {
			out.Inconclusive = inconcl
		}
	}
	out.Sample = fmt.Sprintf("cfg=%+v keys=%d clients=%s strategy=%+v", p.Cfg, len(p.Keys), clientsString(p.Clients), p.Sim.Strategy)
	return out
}

func clientsString(cl [][]Op) string {
	var parts []string
	for i, c := range cl {
		parts = append(parts, fmt.Sprintf("c%d[%s]", i, opsString(c, 6)))
	}
	return strings.Join(parts, " ")
}

// overlapProbes measures how much the recorded calls actually overlapped.
func overlapProbes(out *RunOut, p *Plan, all []HistOp) {
	for i := range all {
		for j := i + 1; j < len(all); j++ {
			a, b := &all[i], &all[j]
			if a.Client == b.Client || a.Ret < b.Call || b.Ret < a.Call {
				continue
			}
			out.Probes["overlapping-calls"]++
			wa := a.Op.K == "put" || a.Op.K == "remove"
			wb := b.Op.K == "put" || b.Op.K == "remove"
			if !wa && !wb {
				continue
			}
			ka, kb := p.Keys[a.Op.Key%len(p.Keys)], p.Keys[b.Op.Key%len(p.Keys)]
			if a.Op.Key == b.Op.Key {
				out.Probes["overlap-same-key-write"]++
			} else if Bucket(ka.Digest, p.Cfg.Bits) == Bucket(kb.Digest, p.Cfg.Bits) {
				out.Probes["overlap-same-bucket-write"]++
			}
		}
	}
}

// --- linearizability ---

type regState struct {
	present bool
	val     string
}

type linIn struct {
	kind      string
	val       string
	immutable bool
}

type linOut struct {
	err   string
	found bool
	val   string
	size  int
}

var regModel = porcupine.Model{
	Init: func() interface{} { return regState{} },
	Step: func(state, input, output interface{}) (bool, interface{}) {
		s := state.(regState)
		in := input.(linIn)
		o := output.(linOut)
		switch in.kind {
		case "put":
			if in.immutable && s.present {
				return o.err == "exists", s
			}
			if o.err != "" {
				return false, s
			}
			return true, regState{present: true, val: in.val}
		case "get":
			if o.found != s.present {
				return false, s
			}
			return !s.present || o.val == s.val, s
		case "has":
			return o.found == s.present, s
		case "size":
			if o.found != s.present {
				return false, s
			}
			return !s.present || o.size == len(s.val), s
		case "remove":
			return o.found == s.present, regState{}
		}
		return false, s
	},
	Equal: func(a, b interface{}) bool { return a.(regState) == b.(regState) },
	DescribeOperation: func(input, output interface{}) string {
		in := input.(linIn)
		o := output.(linOut)
		switch in.kind {
		case "put":
			return fmt.Sprintf("put(%s) -> %q", short([]byte(in.val)), o.err)
		case "get":
			if !o.found {
				return "get -> absent"
			}
			return fmt.Sprintf("get -> %s", short([]byte(o.val)))
		case "has":
			return fmt.Sprintf("has -> %v", o.found)
		case "size":
			return fmt.Sprintf("size -> %v,%d", o.found, o.size)
		case "remove":
			return fmt.Sprintf("remove -> %v", o.found)
		}
		return in.kind
	},
}

// checkLinearizable checks the history per key. Returns a violation, or a
// non-empty string if some partition timed out (inconclusive, never reported).
func checkLinearizable(p *Plan, all []HistOp) (*Violation, string) {
	byKey := map[int][]porcupine.Operation{}
	desc := map[int][]HistOp{}
	for _, h := range all {
		switch h.Op.K {
		case "put", "get", "has", "size", "remove":
		default:
			continue
		}
		k := h.Op.Key % len(p.Keys)
		in := linIn{kind: h.Op.K, immutable: p.Cfg.Immutable}
		if h.Op.K == "put" {
			in.val = string(mkValue(h.Op.VSeq, h.Op.VLen, h.Op.VNil))
		}
		o := linOut{err: h.Res.Err, found: h.Res.Found, val: string(h.Res.Val), size: h.Res.Size}
		byKey[k] = append(byKey[k], porcupine.Operation{ClientId: h.Client, Input: in, Call: h.Call, Output: o, Return: h.Ret})
		desc[k] = append(desc[k], h)
	}
	keys := make([]int, 0, len(byKey))
	for k := range byKey {
		keys = append(keys, k)
	}
	sort.Ints(keys)
	inconcl := ""
	for _, k := range keys {
		res := porcupine.CheckOperationsTimeout(regModel, byKey[k], 10*time.Second)
		switch res {
		case porcupine.Illegal:
			return &Violation{Prop: p.Prop, Class: "conc/not-linearizable", Msg: fmt.Sprintf("history of key k%d is not linearizable w.r.t. the map model:\n%s", k, describeHist(desc[k]))}, ""
		case porcupine.Unknown:
			inconcl = "linearizability check timed out"
		}
	}
	return nil, inconcl
}

func describeHist(hs []HistOp) string {
	sort.Slice(hs, func(i, j int) bool { return hs[i].Call < hs[j].Call })
	var b bytes.Buffer
	for _, h := range hs {
		r := ""
		switch h.Op.K {
		case "put":
			r = fmt.Sprintf("put(%s) -> %q", short(mkValue(h.Op.VSeq, h.Op.VLen, h.Op.VNil)), h.Res.Err)
		case "get":
			if h.Res.Found {
				r = "get -> " + short(h.Res.Val)
			} else {
				r = "get -> absent"
			}
		case "has":
			r = fmt.Sprintf("has -> %v", h.Res.Found)
		case "size":
			r = fmt.Sprintf("size -> %v,%d", h.Res.Found, h.Res.Size)
		case "remove":
			r = fmt.Sprintf("remove -> %v", h.Res.Found)
		}
		fmt.Fprintf(&b, "  client %d [%d,%d] %s\n", h.Client, h.Call, h.Ret, r)
	}
	return b.String()
}

var _ = simos.NewFS

// raceLogOffset tracks how much of the race detector's log file was consumed.
var raceLogOffset int64

// raceReportText returns the race reports written since the last call (the
// parent points GORACE log_path at a per-worker file).
func raceReportText() string {
	base := os.Getenv("VERIF_RACE_LOG")
	if base == "" {
		return "(race reports are on stderr)"
	}
	name := fmt.Sprintf("%s.%d", base, os.Getpid())
	b, err := os.ReadFile(name)
	if err != nil || int64(len(b)) <= raceLogOffset {
		return "(no report text captured)"
	}
	txt := string(b[raceLogOffset:])
	raceLogOffset = int64(len(b))
	// keep the report text (bounded)
	var keep []string
	for _, l := range strings.Split(txt, "\n") {
		l = strings.TrimRight(l, " ")
		if l == "" || strings.HasPrefix(l, "====") {
			continue
		}
		keep = append(keep, l)
		if len(keep) > 60 {
			keep = append(keep, "...")
			break
		}
	}
	return strings.Join(keep, "\n")
}
