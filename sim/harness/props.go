package harness

func init() {
	Props["C01"] = &PropSpec{
		ID: "C01", Level: "exploration",
		Technique: "deterministic simulation: seeded history/configuration search against a map reference model on the simulated disk",
		Rule: "one case = generated (configuration, key set, call history) run single-task on the simulated disk with the map model checked on every return value; " +
			"non-trivial = at least two keys share a bucket or an index/primary file rolled over during the run; distinct = distinct (plan hash, schedule hash)",
		Nontrivial: func(o *RunOut) bool {
			return o.Probes["bucket-shared"] > 0 || o.Probes["index-rolled"] > 0 || o.Probes["primary-rolled"] > 0
		},
		Assumptions: []string{
			"seeded sampling of histories (<= 60 calls, <= 12 keys), not enumeration",
			"simulated os semantics match the real package os for the operations the store uses (checked by the simos differential self-test)",
			"no schedule or fault dimension in this property: one task, no faults",
		},
		Quick: 40, Thorough: 600, Real: commonReal, Simulated: commonSim,
	}
	Props["C07"] = &PropSpec{
		ID: "C07", Level: "exploration",
		Technique: "deterministic simulation: independent fsck of every quiescent disk image reached by the sequential, crash-recovery and concurrent engines",
		Rule: "one case = an engine run — 35% sequential histories, 25% histories with GC cycles, interrupted cycles and reopen, 20% crash-recovery runs (8 crash images per history, fsck after recovery + flush, after follow-up ops, GC cycles and reopen), 20% concurrent runs with GC tasks (fsck after join + flush) — whose every quiescent checkpoint is checked by an independent parser of header, index log, bucket table/snapshot, primary and freelist files, in two modes (table rebuilt by log scan; live table or snapshot file) that must agree; only fsck failures are reported here; " +
			"non-trivial = at least one checkpoint was checked on a store where two keys share a bucket or a file rolled over; distinct = distinct (plan hash, schedule hash)",
		Nontrivial: func(o *RunOut) bool {
			return o.Probes["fsck"] > 0 && (o.Probes["bucket-shared"] > 0 || o.Probes["index-rolled"] > 0 || o.Probes["primary-rolled"] > 0)
		},
		Assumptions: []string{
			"the file formats are as documented in DESIGN.md Appendix D (re-implemented, not shared with the store)",
			"seeded sampling of reachable quiescent states, not enumeration",
		},
		Quick: 40, Thorough: 600, Real: commonReal, Simulated: commonSim,
	}
	Props["C03"] = &PropSpec{
		ID: "C03", Level: "fault_enumeration",
		Technique: "deterministic simulation with crash-point enumeration: every mutating file operation of a generated history (plus torn-write prefixes and nested crashes) is a crash image booted in a fresh simulated process and checked against the recovery-admissibility oracle, then driven on through GC and reopen",
		Rule: "one case = a generated forward history (puts, removes, flushes, GC cycles, reopen) whose mutating file operations are crash points; quick boots a seeded sample of <= 24 crash images per history (incl. torn prefixes, 10% nested crashes), thorough boots every crash point with torn variants; " +
			"each image: open must succeed, every key must read as its last-flushed value or a later acknowledged/in-flight one, Get/Has/GetSize agree, then follow-up ops + flush + fsck + 2 GC cycles of each kind + reopen + read-back; 40% of multihash histories are the background variant: the store's own flusher and collectors run on short simulated intervals (a cycle every 1-40 ms) under a random scheduler with one of three timing perturbations (preemption injection, site-directed stalls at a per-run subset of call sites, per-operation jitter), a busy-writer sub-variant on tiny files; in the quick tier every crash image that was not sampled is triaged by the independent fsck (contents it reconstructs vs the admissible set; structural errors) and the suspicious ones (<= 40, <= 80 in the background variant) are booted with a light recovery check (reads, one flush, fsck); " +
			"non-trivial = a history with at least one recovery booted; distinct = distinct (plan hash, schedule hash); distinct crash images are reported separately",
		Nontrivial: func(o *RunOut) bool { return o.Probes["recoveries"] > 0 },
		Assumptions: []string{
			"process crash only: everything written with write(2) survives (no power loss / no loss of un-fsynced data), as the property states",
			"crash points are at file-operation granularity; a write is torn at byte granularity",
			"histories are sampled; within a history the thorough tier enumerates every crash point",
		},
		Quick: 60, Thorough: 900, Real: commonReal, Simulated: commonSim,
	}
	Props["C04"] = &PropSpec{
		ID: "C04", Level: "exploration",
		Technique: "deterministic simulation: seeded histories with index-GC and primary-GC cycles (scan-free on/off, low-use thresholds, countdown-interrupted cycles) checked against the map reference model",
		Rule: "one case = generated history on small file limits with GC cycles of both kinds interleaved at arbitrary positions (with unflushed data, repeated, interrupted after n context checks and resumed); map model checked on every later call, iteration and a reopen; " +
			"non-trivial = at least one GC cycle ran on a store where a file had rolled over; distinct = distinct (plan hash, schedule hash)",
		Nontrivial: func(o *RunOut) bool {
			return (o.Probes["index-gc"] > 0 || o.Probes["primary-gc"] > 0) && (o.Probes["index-rolled"] > 0 || o.Probes["primary-rolled"] > 0)
		},
		Assumptions: []string{
			"seeded sampling of histories (<= 60 calls, <= 15 GC cycles)",
			"a GC cycle that returns an error is not counted as a content change (progress is C11's concern)",
		},
		Quick: 40, Thorough: 600, Real: commonReal, Simulated: commonSim,
	}
	concAssume := []string{
		"interleavings are explored at synchronisation, channel, clock and file-system operations (not between arbitrary memory accesses; unsynchronised accesses are C16's concern)",
		"seeded sampling of schedules under several strategies (uniform, sticky, PCT-like, round-robin), not enumeration",
		"linearizability is decided by porcupine per key with a 10 s budget; a timed-out partition is counted as inconclusive and never reported",
	}
	Props["C05"] = &PropSpec{
		ID: "C05", Level: "exploration",
		Technique: "deterministic simulation: seeded schedule search over 2-4 client tasks + flusher with porcupine linearizability checking per key against the map model",
		Rule: "one case = 2-4 client tasks x 3-10 calls on 2-6 keys concentrated in 1-2 buckets (unique values), flusher on a 1 ms-1 s simulated interval and/or an explicit Flush client, small file limits, disk latency model; the scheduler decides every interleaving at lock/channel/clock/file-system operations; any error other than key-exists in immutable mode is a violation; the recorded history plus a final sequential read-back must be linearizable per key; " +
			"non-trivial = at least one pair of overlapping calls from different clients that includes a write, on one key or on two keys of one bucket; distinct = distinct (plan hash, schedule hash)",
		Nontrivial: func(o *RunOut) bool {
			return o.Probes["overlap-same-key-write"]+o.Probes["overlap-same-bucket-write"] > 0
		},
		Assumptions: concAssume,
		Quick:       45, Thorough: 900, Real: commonReal, Simulated: commonSim,
	}
	Props["C06"] = &PropSpec{
		ID: "C06", Level: "exploration",
		Technique: "deterministic simulation: seeded schedule search over client tasks + flusher + index-GC and primary-GC tasks (explicit cycles and background collectors), porcupine linearizability per key",
		Rule: "as C05 on the multihash primary with tiny file limits, plus an index-GC task and a primary-GC task issuing cycles with think times (scan-free on/off, low-use thresholds 0..100) and/or the store's own background collectors on 10-100 ms simulated intervals with time limits, and stalled disk operations; no call may fail, no task may panic, and the history plus final read-back must be linearizable; " +
			"non-trivial = at least one GC cycle ran and at least one overlapping pair of calls includes a write; distinct = distinct (plan hash, schedule hash)",
		Nontrivial: func(o *RunOut) bool {
			return o.Probes["index-gc"]+o.Probes["primary-gc"] > 0 && o.Probes["overlap-same-key-write"]+o.Probes["overlap-same-bucket-write"] > 0
		},
		Assumptions: concAssume,
		Quick:       60, Thorough: 900, Real: commonReal, Simulated: commonSim,
	}
	Props["C02"] = &PropSpec{
		ID: "C02", Level: "exploration",
		Technique: "deterministic simulation: seeded histories with Close/reopen at arbitrary positions; each closed image is reopened three ways (snapshot kept / deleted / unusable) and contents and bucket tables compared with the map model and with each other",
		Rule: "one case = generated history (incl. GC cycles, file roll-over) with up to 7 Close/reopen points; at each one: Close must return nil, a second Close must return nil and change no file, and the closed image is opened with the bucket snapshot kept, deleted and damaged (truncated / extra byte / zero length): every fork must show contents equal to the model (all keys + iteration) and bucket tables resolving to byte-identical record lists; " +
			"non-trivial = at least one three-way fork on a store where two keys share a bucket or a file rolled over; distinct = distinct (plan hash, schedule hash)",
		Nontrivial: func(o *RunOut) bool {
			return o.Probes["reopen-fork"] > 0 && (o.Probes["bucket-shared"] > 0 || o.Probes["index-rolled"] > 0 || o.Probes["primary-rolled"] > 0)
		},
		Assumptions: []string{"seeded sampling of histories and reopen positions", "clean Close only (crashes are C03)"},
		Quick:       40, Thorough: 600, Real: commonReal, Simulated: commonSim,
	}
	Props["C12"] = &PropSpec{
		ID: "C12", Level: "exploration",
		Technique: "deterministic simulation: seeded schedule search over bursting writers + periodic flusher + explicit flushes with a bounded-liveness watchdog on the simulated clock",
		Rule: "one case = 1-3 writer tasks bursting Put/Remove (zero think time) into a store with burst rate 32-512 bytes, sync interval 10 ms-1 s simulated, a finite measured flush rate (disk latency model or the verif flush-rate setter), optional explicit Flush task; single writer with no other traffic is 40% of the cases; oracle (bounded liveness, checked after every scheduler step): no writer is still parked at the flush-notice receive once the periodic flusher has completed 3 flush calls since the wait began (so at least 2 of them started after it); a deadlock is the same violation; " +
			"non-trivial = at least one writer actually entered the waiting path; distinct = distinct (plan hash, schedule hash)",
		Nontrivial: func(o *RunOut) bool { return o.Probes["writer-waited"] > 0 },
		Assumptions: []string{
			"bounded liveness: 3 completed flusher iterations after the wait began, no faults injected",
			"interleavings explored at lock/channel/clock/file-system operations",
		},
		Quick: 45, Thorough: 900, Real: commonReal, Simulated: commonSim,
	}
	Props["C17"] = &PropSpec{
		ID: "C17", Level: "exploration",
		Technique: "deterministic simulation: seeded schedule search with Close issued while flusher and collectors are mid-cycle (stalled disk), resource ledger of the simulated disk and task table checked after advancing the virtual clock; failing-open and open/close-cycle classes",
		Rule: "three case classes: (a) concurrent workload with background collectors on 5-65 ms simulated intervals and stalled disk operations, then Close after a random linger; after Close returns the virtual clock is advanced past 3x the largest interval and: no task started by the store is alive, no handle opened by the store is open, no mutating file op was issued after Close returned, reopening shows the contents read just before Close; (b) failing opens (index/primary file-size mismatch with the specific error, unsupported primary type, invalid-JSON header, EIO on the n-th open/read of OpenStore, bit-size change with EIO inside the translation): same ledger/task checks; (c) 20-50 open/close cycles with work: counts return to baseline every cycle; " +
			"non-trivial = a Close with background work in flight, a failed open, or an open/close cycle was checked; distinct = distinct (plan hash, schedule hash)",
		Nontrivial: func(o *RunOut) bool {
			return o.Probes["close-during-background-work"]+o.Probes["failed-open"]+o.Probes["open-close-cycle"] > 0
		},
		Assumptions: []string{
			"callers have returned before Close is called (Close racing in-flight Put/Get calls is outside the statement)",
			"descriptors = handles of the simulated disk; goroutines = simulator tasks",
		},
		Quick: 45, Thorough: 900, Real: commonReal, Simulated: commonSim,
	}
	Props["C16"] = &PropSpec{
		ID: "C16", Level: "exploration",
		Technique: "deterministic simulation under the Go race detector: serialised, replayable executions in which the scheduler's hand-offs are hidden from ThreadSanitizer (runtime.RaceDisable, uninstrumented simulator packages) and the simulated sync primitives publish exactly the happens-before edges of the real ones",
		Rule: "one case = a C05/C06 style concurrent run (clients, flusher, explicit GC tasks or background collectors, Close at the end) plus a task calling StorageSize/IndexStorageSize/PrimaryStorageSize/FreelistStorageSize and SetFileCacheSize, executed in the -race build; ThreadSanitizer's report count must stay 0; because detection is happens-before based a missing lock is reported on any schedule that merely executes both accesses; " +
			"non-trivial = the race detector is enabled and at least one overlapping pair of calls includes a write; distinct = distinct (plan hash, schedule hash)",
		Nontrivial: func(o *RunOut) bool {
			return o.Probes["race-enabled"] > 0 && o.Probes["overlap-same-key-write"]+o.Probes["overlap-same-bucket-write"] > 0
		},
		Assumptions: []string{
			"ThreadSanitizer's bounded access history can miss pairs that are very far apart",
			"the simulated sync primitives publish the same happens-before edges as package sync (Mutex, RWMutex two-address scheme, Once, WaitGroup); real channels and go statements contribute their native edges; file operations contribute none",
			"two cycles of the same collector are never run at once (explicit GC tasks are not combined with the background collectors)",
		},
		Quick: 60, Thorough: 900, Real: commonReal, Simulated: commonSim,
	}
	Props["C14"] = &PropSpec{
		ID: "C14", Level: "exploration",
		Technique: "deterministic simulation: seeded operation sequences (1 task) and seeded schedules (2-3 tasks) on a bare FileCache over the simulated disk, invariants checked from the cache's white-box state and the disk's handle ledger",
		Rule: "one case = 1-3 tasks issuing Open / Close(of a held handle) / use(ReadAt on a held handle) / Remove / Clear / SetCacheSize(0..3) / Len over 1-3 file names, <= 26 ops, initial capacity 0..3; invariants (after every op in the 1-task class, at the end and during the final release in the concurrent class): every lent handle is open and readable, every open handle is cached or lent, each entry's reference count equals the references lent out (never negative), no handle closed twice, no operation on a closed handle, cached <= capacity, open descriptors <= capacity + handles lent out, and after releasing everything and Clear no handle is open; " +
			"non-trivial = at least 3 handle closes happened on the simulated disk (evictions/releases); distinct = distinct (plan hash, schedule hash)",
		Nontrivial:  func(o *RunOut) bool { return o.Probes["fc-evictions"] >= 3 },
		Assumptions: []string{"seeded sampling of sequences up to 26 ops (not exhaustive enumeration)", "handles and descriptors are those of the simulated disk"},
		Quick:       40, Thorough: 600, Real: []string{"store/filecache rebuilt from /repo's working tree"}, Simulated: commonSim,
	}
	Props["C15"] = &PropSpec{
		ID: "C15", Level: "exploration",
		Technique: "deterministic simulation: seeded blockstore call sequences with cancelled contexts, flipped stored bytes and mismatching blocks against a multihash->bytes reference model",
		Rule: "one case = 5-40 calls of Put / PutMany / Get / Has / GetSize / DeleteBlock / HashOnRead(true|false) / close+reopen over 2-7 blocks (sizes 0 nil/empty, 1, tens..thousands of bytes, > 64 KiB; sha2-256, sha2-512, blake2b-256; CIDv0 and CIDv1 raw / dag-pb / dag-cbor variants sharing one multihash); faults: 10% of calls with an already-cancelled context (must return context.Canceled and leave every file untouched), one stored byte flipped on disk, blocks whose CID does not match their data; oracle: model multihash -> stored bytes, IPLD not-found for absent blocks, duplicates silent, hash-on-read rejects mismatching bytes with ErrWrongHash when enabled and returns them unchecked when disabled; " +
			"non-trivial = the case contains a cancelled call, a flipped byte, a mismatching block or a hash-on-read switch; distinct = distinct (plan hash, schedule hash)",
		Nontrivial: func(o *RunOut) bool {
			return o.Probes["cancelled-call"]+o.Probes["flip"]+o.Probes["mismatching-block"]+o.Probes["hash-on-read-set"] > 0
		},
		Assumptions: []string{"no schedule dimension: one task", "blocks are few (2-7) and real hashes, so bucket sharing comes from the 8/12-bit index sizes"},
		Quick:       40, Thorough: 600, Real: commonReal, Simulated: commonSim,
	}
	Props["C08"] = &PropSpec{
		ID: "C08", Level: "exploration",
		Technique: "deterministic simulation: seeded operation sequences on index.Index over the simulated disk with the in-memory primary, location reference model plus structural checks of the bucket's record list after every operation",
		Rule: "one case = 2-10 equal-length keys (bucket bytes + 2..6 bytes over an alphabet of 2-4 symbols, one or two buckets, index bits 8/12/16, 24 in thorough) and 4-40 operations Put(new key) / Update / Remove / Get(present and absent) / Flush, index file limits from 16 bytes to default, file cache 0/1; oracle: Get of a present key returns exactly its latest location, Get of an absent key returns nothing or the location of another present key; after every mutation the bucket's record list is strictly sorted, prefix-free, every stored prefix is a prefix of its own full key (fetched through its location), every present key has exactly one entry, and an update or removal changes only the addressed key's entry (an insertion may re-trim neighbours but must keep every other entry's location); " +
			"non-trivial = at least one pair of keys shares a bucket and the first stored byte; distinct = distinct (plan hash, schedule hash)",
		Nontrivial:  func(o *RunOut) bool { return o.Probes["shared-prefix-pairs"] > 0 },
		Assumptions: []string{"seeded random search, not exhaustive enumeration of the bounded space", "no schedule or fault dimension: one task"},
		Quick:       40, Thorough: 600, Real: []string{"store/index (incl. record lists, flush, file roll-over), store/filecache, store/primary/inmemory rebuilt from /repo's working tree"}, Simulated: commonSim,
	}
	Props["C13"] = &PropSpec{
		ID: "C13", Level: "exploration",
		Technique: "deterministic simulation: freelist ledger (expected multiset of superseded locations vs entries observed in the freelist file plus every batch captured at the hand-over rename) over seeded sequential histories with GC relocation and clean restarts, and over seeded schedules of disjoint-key writers + flusher + a GC task hammering the hand-over",
		Rule: "sequential class (65%): generated history on the multihash primary with overwrites, removals, flushes, index/primary GC cycles (relocation thresholds 0..101, interrupted cycles), clean restarts; before/after every call and GC cycle the harness reads each key's current location through Index.Get; at every flushed checkpoint: multiset(expected freed) = multiset(freelist file) + multiset(all batches handed to GC), nothing recorded twice, no current location recorded, nothing recorded for new-key Put / rejected Put / absent Remove (locations that never were current, i.e. copies GC could not index, are exempt); concurrent class (35%): 2-4 writers on disjoint key sets, flusher, Flush client, GC client with relocation disabled (threshold 101), same checks after join + Flush, after one more cycle and after a clean restart; crash class (15% of the non-concurrent cases): a sequential history with frequent, partly interrupted primary GC cycles is crashed at every mutating file operation on the freelist file or its .gc hand-over file (<= 40 per history, + 6 others, torn appends included); after recovery and three complete primary GC cycles every entry the freelist file or the hand-over file durably held at the crash, whose record was intact in the image, must be marked deleted or gone; relocating-GC class of the concurrent cases (40%): structural check instead of the multiset comparison (nothing recorded twice, no current location recorded, every intact unreferenced primary record recorded); " +
			"non-trivial = at least one location was superseded and at least one ledger checkpoint ran; distinct = distinct (plan hash, schedule hash)",
		Nontrivial: func(o *RunOut) bool {
			return (o.Probes["superseded"]+o.Probes["relocated"] > 0 && o.Probes["ledger-check"] > 0) || o.Probes["crash-ledger-check"] > 0
		},
		Assumptions: []string{
			"clean restarts only (a crash loses the in-memory freelist pool: not promised by the statement's restart clause)",
			"same-key concurrent writers are serialised by the store; the concurrent class uses disjoint key sets so that the expected multiset is well defined",
		},
		Quick: 40, Thorough: 600, Real: commonReal, Simulated: commonSim,
	}
	Props["C11"] = &PropSpec{
		ID: "C11", Level: "exploration",
		Technique: "deterministic simulation: seeded histories that end with chosen primary/index files holding no live data (or falling below the low-use threshold), followed by bounded rounds of (GC cycle, Flush) with progress, conservation and fixed-point checks on the simulated disk",
		Rule: "one case = generated history on the multihash primary with 32 B-1 KiB file limits; then (mode 0/2) every key whose current location (read through Index.Get) lies in a chosen subset of the non-current primary files is removed or overwritten and the change flushed, or (mode 1) files are pushed below a low-use threshold t in {1,50,74,85}; oracle: within B = 10 + 4*moved records rounds (12 + 6*moved for low-use draining; x3 with countdown-interrupted cycles) of (primary GC, Flush) every targeted file is zero-length or unlinked, the oldest file if targeted is unlinked and the header first-file number advanced; mode 2: index files no bucket refers into are emptied within 2 + #index-files index GC cycles; GC cycle errors are violations; cycles without relocation never increase StorageSize, a flush after a relocating cycle grows the primary by at most the relocated bytes; repeated rounds reach a fixed point (3 consecutive rounds changing no file) within a bound and never leave it; background class (25% of all modes): after the flush the store is closed and reopened with its own collectors (interval 2-31 ms simulated, time limit 0/20/60 ms) and flusher and left idle: the same files must be released within B + 2 + #index-files + 12 cycles of each collector (x3 with a time limit; cycles counted on the simulated disk, simulated time only caps the wait) and the contents of the non-empty files must then stop changing for 3 consecutive steps of >= 1 cycle - this is what runs the collectors' timer loops, the index collector's skipping of the free-file scan and time-limited cycles that resume; " +
			"non-trivial = at least one targeted file was released or a fixed point was verified after real GC work; distinct = distinct (plan hash, schedule hash)",
		Nontrivial: func(o *RunOut) bool {
			return o.Probes["primary-released"]+o.Probes["index-released"]+o.Probes["bg-released"] > 0
		},
		Assumptions: []string{
			"bounds are generous finite constants derived from the number of records moved; they are not tight",
			"no GC cycle precedes the measured rounds in the same process (the collector's visited set starts empty)",
		},
		Quick: 40, Thorough: 600, Real: commonReal, Simulated: commonSim,
	}
	Props["C09"] = &PropSpec{
		ID: "C09", Level: "fault_enumeration",
		Technique: "deterministic simulation: seeded contents re-bucketed between sampled bit-size pairs with model comparison and continued histories; file-size mismatches; crash-point / torn-write enumeration over every mutating file operation of the re-bucketing open, each image reopened with the new and the old bit size",
		Rule: "one case = generated contents (C01 history, multi-file index) under bits b1, Close, file-size mismatch opens (index, primary: must fail with the specific error type, and the original settings must then show the contents intact), reopen with b2 (pairs from {8,9,10,12,15,16,17,20}, 24 in 1% of thorough cases): contents = model (all keys + iteration), a further history under b2 with fsck at every flush, and re-bucketing back to b1; crash class (45%): every mutating file op of the re-bucketing open is a crash point (quick: seeded sample of 30 incl. torn appends; thorough: all), each image is opened with b2 and with b1: the open may fail, but if it succeeds every key of the model must read its value; " +
			"non-trivial = a re-bucketing completed on a store where two keys share a bucket or a file rolled over, or crash images were booted; distinct = distinct (plan hash, schedule hash)",
		Nontrivial: func(o *RunOut) bool {
			return o.Probes["translated"] > 0 && (o.Probes["bucket-shared"]+o.Probes["index-rolled"]+o.Probes["primary-rolled"]+o.Probes["recoveries"] > 0)
		},
		Assumptions: []string{"process-crash model (written data survives)", "bit sizes above 24 are outside the stated configurations; 24 is sampled rarely (128 MiB table)"},
		Quick:       45, Thorough: 900, Real: commonReal, Simulated: commonSim,
	}
	Props["C10"] = &PropSpec{
		ID: "C10", Level: "fault_enumeration",
		Technique: "deterministic simulation: legacy-format stores written by the harness from a generated model, upgraded by the real OpenStore on the simulated disk; crash-point / torn-write / nested-crash enumeration over every mutating file operation of the upgrading open with resume-until-success",
		Rule: "one case = a legacy store generated from a put/remove history over 1-9 keys: version-2 single-file index (own shortest-unique-prefix record lists, stale record lists superseded later in the log), unversioned single-file primary whose dead records are deleted-marked, pending on the legacy freelist, or both, optionally index entries pointing past the end of the primary; opened with target file-size limits from 16 bytes (one record per chunk) to 1 GiB (single chunk) and equal or different index bits (upgrade + re-bucketing); oracle: contents = model exactly (all keys, iteration), past-the-end entries dropped, fsck clean, a second open shows the same; crash class (50%): every mutating op of the upgrading open is a crash point (quick: seeded sample of 30 incl. torn appends, 15% with a second crash in the resuming open; thorough: all), the open that finally completes must show the model and pass fsck; " +
			"non-trivial = an upgrade completed for a legacy store holding at least one dead record or more than one chunk, or crash images were resumed; distinct = distinct (plan hash, schedule hash)",
		Nontrivial:  func(o *RunOut) bool { return o.Probes["upgraded"] > 0 },
		Assumptions: []string{"legacy formats as read by store/index/upgrade.go and store/primary/multihash/upgrade.go (documented in DESIGN.md Appendix D)", "process-crash model"},
		Quick:       45, Thorough: 900, Real: commonReal, Simulated: commonSim,
	}
}
