package harness

func init() {
	Props["C01"] = &PropSpec{
		ID: "C01", Level: "exploration",
		Technique: "deterministic simulation: seeded history/configuration search against a map reference model on the simulated disk",
		Rule: "one case = generated (configuration, key set, call history) run single-task on the simulated disk with the map model checked on every return value; " +
			"non-trivial = at least two keys share a bucket or an index/primary file rolled over during the run; distinct = distinct (plan hash, schedule hash)",
		Nontrivial: func(o *RunOut) bool {
			return o.Probes["bucket-shared"] > 0 || o.Probes["index-rolled"] > 0 || o.Probes["primary-rolled"] > 0
		},
		Assumptions: []string{
			"seeded sampling of histories (<= 60 calls, <= 12 keys), not enumeration",
			"simulated os semantics match the real package os for the operations the store uses (checked by the simos differential self-test)",
			"no schedule or fault dimension in this property: one task, no faults",
		},
		Quick: 40, Thorough: 600, Real: commonReal, Simulated: commonSim,
	}
}
