package harness

import (
	"bytes"
	"encoding/binary"
	"encoding/hex"
	"sort"

	"verif/sim/simrt"
)

// Key generation: well-formed multihashes / CIDs over adversarial digests
// (few bucket prefixes, long shared prefixes), none a proper prefix of another.

const (
	codeSHA512     = 0x13
	codeSHA512_256 = 0x1015
	codeSHA256     = 0x12
	codeIdentity   = 0x00
	codecRaw       = 0x55
	codecDagPB     = 0x70
	codecDagCBOR   = 0x71
)

// KeySpec is one key of a plan.
type KeySpec struct {
	Digest HexBytes `json:"d"`
	Code   uint64   `json:"c"`
}

// HexBytes marshals as a hex string.
type HexBytes []byte

func (h HexBytes) MarshalJSON() ([]byte, error) {
	return []byte(`"` + hex.EncodeToString(h) + `"`), nil
}

func (h *HexBytes) UnmarshalJSON(b []byte) error {
	if len(b) < 2 {
		*h = nil
		return nil
	}
	d, err := hex.DecodeString(string(b[1 : len(b)-1]))
	*h = d
	return err
}

func uvarint(x uint64) []byte {
	var b [10]byte
	n := binary.PutUvarint(b[:], x)
	return b[:n]
}

// Multihash returns the multihash bytes of the key.
func (k KeySpec) Multihash() []byte {
	out := append(uvarint(k.Code), uvarint(uint64(len(k.Digest)))...)
	return append(out, k.Digest...)
}

// CID returns the CID bytes of the key in the given variant:
// 0 = CIDv1 raw, 1 = CIDv1 dag-pb, 2 = CIDv1 dag-cbor, 3 = CIDv0 (only valid for
// sha2-256 with 32-byte digests; falls back to variant 0 otherwise).
func (k KeySpec) CID(variant int) []byte {
	mh := k.Multihash()
	switch variant {
	case 3:
		if k.Code == codeSHA256 && len(k.Digest) == 32 {
			return mh
		}
		fallthrough
	case 0:
		return append(append(uvarint(1), uvarint(codecRaw)...), mh...)
	case 1:
		return append(append(uvarint(1), uvarint(codecDagPB)...), mh...)
	default:
		return append(append(uvarint(1), uvarint(codecDagCBOR)...), mh...)
	}
}

// StoreKey returns the bytes handed to the store for this key.
func (k KeySpec) StoreKey(primary string, variant int) []byte {
	if primary == "CID" {
		return k.CID(variant)
	}
	return k.Multihash()
}

// Bucket returns the bucket of the digest under the given bit size.
func Bucket(digest []byte, bits uint8) uint32 {
	v := binary.LittleEndian.Uint32(digest[:4])
	return v & ((1 << bits) - 1)
}

// GenKeys produces n distinct, pairwise prefix-free digests concentrated in a
// few buckets with long shared prefixes.
func GenKeys(r *simrt.Rand, n int, short bool) []KeySpec {
	nb := 1 + r.Intn(3)
	prefixes := make([][]byte, nb)
	for i := range prefixes {
		p := make([]byte, 4)
		for j := range p {
			p[j] = byte(r.Intn(4)) // tiny alphabet: collisions under every bit size
		}
		if r.Chance(0.3) {
			p[0] = byte(r.Intn(256))
		}
		prefixes[i] = p
	}
	// a small pool of shared middles
	pool := make([][]byte, 1+r.Intn(3))
	for i := range pool {
		l := r.Intn(28)
		m := make([]byte, l)
		for j := range m {
			m[j] = byte(r.Intn(3))
		}
		pool[i] = m
	}
	// long digests (sha2-512 sized): every key carries one shared 32..55 byte
	// stem right after its bucket prefix, so that keys of one bucket share more
	// than 32 index-key bytes
	var stem []byte
	if !short && r.Chance(0.12) {
		stem = make([]byte, 32+r.Intn(24))
		for j := range stem {
			stem[j] = byte(r.Intn(3))
		}
	}
	var out []KeySpec
	seen := map[string]bool{}
	attempts := 0
	for len(out) < n {
		attempts++
		alpha := 3
		if attempts > 50*n {
			alpha = 256 // the small alphabet is exhausted: widen it
		}
		var d []byte
		code := uint64(codeSHA256)
		if short {
			code = codeIdentity
			l := 5 + r.Intn(4)
			d = append(d, prefixes[r.Intn(nb)]...)
			if attempts > 200*n {
				// the prefix tree is saturated: fall back to a fresh random prefix
				d = []byte{byte(r.Intn(256)), byte(r.Intn(256)), byte(r.Intn(256)), byte(r.Intn(256))}
			}
			for len(d) < l {
				d = append(d, byte(r.Intn(alpha)))
			}
		} else {
			d = append(d, prefixes[r.Intn(nb)]...)
			d = append(d, pool[r.Intn(len(pool))]...)
			if len(d) > 31 {
				d = d[:31]
			}
			d = append(d, byte(r.Intn(4)))
			for len(d) < 32 {
				if r.Chance(0.5) {
					d = append(d, byte(r.Intn(2)))
				} else {
					d = append(d, byte(r.Intn(256)))
				}
			}
			if attempts > 20*n {
				// the shared-prefix tree is saturated: perturb one later byte
				d[4+r.Intn(28)] = byte(r.Intn(256))
			}
			if stem == nil && r.Chance(0.1) {
				// a hash function whose multicodec code needs a two-byte varint
				// (sha2-512-256, 32-byte digests)
				code = codeSHA512_256
			}
			if stem != nil {
				// prefix | stem | tail of the digest built above = 64 bytes; the
				// check below rejects duplicates
				keep := 60 - len(stem) // 5..28 bytes from the end of d, the part that varies most
				ld := append(append(append([]byte(nil), d[:4]...), stem...), d[32-keep:]...)
				if attempts > 60*n {
					for j := 64 - keep; j < 64; j++ {
						ld[j] = byte(r.Intn(256))
					}
				}
				d = ld
				code = codeSHA512
			}
		}
		// distinct and prefix-free
		ok := !seen[string(d)]
		if ok && short {
			for _, o := range out {
				if bytes.HasPrefix(o.Digest, d) || bytes.HasPrefix(d, o.Digest) {
					ok = false
					break
				}
			}
		}
		if !ok {
			continue
		}
		seen[string(d)] = true
		out = append(out, KeySpec{Digest: d, Code: code})
	}
	return out
}

// mkValue returns the unique value for write number seq with the given length.
func mkValue(seq, length int, isNil bool) []byte {
	if length == 0 {
		if isNil {
			return nil
		}
		return []byte{}
	}
	v := make([]byte, length)
	var hdr [8]byte
	binary.LittleEndian.PutUint32(hdr[:], uint32(seq))
	binary.LittleEndian.PutUint32(hdr[4:], uint32(length))
	x := simrt.SplitMix(uint64(seq)*1000003 + uint64(length))
	for i := range v {
		if i < 8 && length >= 8 {
			v[i] = hdr[i]
		} else if i < 4 && length >= 4 {
			v[i] = hdr[i]
		} else if length < 4 {
			v[i] = byte(seq >> (8 * i))
		} else {
			if i%8 == 0 {
				x = simrt.SplitMix(x)
			}
			v[i] = byte(x >> (8 * (i % 8)))
		}
	}
	return v
}

func sortedDigests(m map[string]bool) []string {
	ks := make([]string, 0, len(m))
	for k := range m {
		ks = append(ks, k)
	}
	sort.Strings(ks)
	return ks
}
