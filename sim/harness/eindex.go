package harness

import (
	"bytes"
	"context"
	"fmt"

	"github.com/ipld/go-storethehash/store/filecache"
	"github.com/ipld/go-storethehash/store/index"
	"github.com/ipld/go-storethehash/store/primary/inmemory"
	"github.com/ipld/go-storethehash/store/types"

	"verif/sim/simrt"
)

// C08: prefix-compressed record lists always resolve each key to its own entry.
// One driver on index.Index over the simulated disk with the in-memory primary.

func init() {
	engines["index"] = runIndex
	generators["C08"] = genC08
}

func genC08(seed uint64, tier string) *Plan {
	r := simrt.NewRand(seed)
	p := &Plan{Engine: "index", X: map[string]int{}}
	bits := []uint8{8, 8, 8, 16, 24, 12}[r.Intn(6)]
	if bits == 24 && tier != "thorough" {
		bits = 16
	}
	p.Cfg = StoreCfg{Bits: bits, IndexFile: fileSizes[r.Weighted([]int{10, 10, 10, 10, 10, 5, 5, 5, 30})], FileCache: r.Intn(2)}
	bb := int(bits / 8)
	klen := bb + 2 + r.Intn(5)
	if klen < 4 {
		klen = 4
	}
	alpha := 2 + r.Intn(3)
	nb := 1 + r.Intn(2)
	nk := 2 + r.Intn(9)
	p.X["klen"] = klen
	p.X["alpha"] = alpha
	// keys: bucket bytes from nb choices, the rest over a tiny alphabet
	seen := map[string]bool{}
	for len(p.Keys) < nk {
		k := make([]byte, klen)
		for i := range k {
			if i < 4 && i < bb+1 {
				k[i] = byte(1 + r.Intn(nb))
				if i > 0 {
					k[i] = 1
				}
			} else {
				k[i] = byte(r.Intn(alpha))
			}
		}
		if bb < 4 {
			// bytes between the bucket bytes and position 4 belong to the stored key
			for i := bb; i < klen; i++ {
				k[i] = byte(r.Intn(alpha))
			}
		}
		if seen[string(k)] {
			if len(seen) >= pow(alpha, klen-bb)*nb {
				break
			}
			continue
		}
		seen[string(k)] = true
		p.Keys = append(p.Keys, KeySpec{Digest: k})
	}
	if r.Chance(0.3) {
		// long keys with long shared stems ("however many leading bytes they
		// share"): 8..70 index-key bytes after the bucket bytes (32-byte and
		// 64-byte digests, identity multihashes), every key a copy of one stem
		// up to one of a few divergence points and random over the tiny alphabet
		// from there on; divergence points cluster around the word and record
		// boundaries an implementation might special-case (8, 16, 32, 33, the end)
		L := 8 + r.Intn(63)
		klen = bb + L
		if klen < 12 {
			klen = 12
		}
		L = klen - bb
		p.X["klen"] = klen
		p.X["long"] = 1
		stem := make([]byte, klen)
		for i := range stem {
			stem[i] = byte(r.Intn(alpha))
			if i < 4 && i < bb+1 {
				stem[i] = 1
			}
		}
		cands := []int{L - 1, L - 2, L - 1 - r.Intn(L), 8, 7, 9, 16, 31, 32, 33, 24, L - 8, L - 9}
		var points []int
		for len(points) < 1+r.Intn(3) {
			d := cands[r.Intn(len(cands))]
			if d >= 0 && d < L {
				points = append(points, d)
			}
		}
		p.Keys = nil
		seen := map[string]bool{}
		for tries := 0; len(p.Keys) < nk && tries < 400; tries++ {
			k := append([]byte(nil), stem...)
			d := points[r.Intn(len(points))]
			for i := bb + d; i < klen; i++ {
				k[i] = byte(r.Intn(alpha))
			}
			if r.Chance(0.5) {
				// differ at the divergence point only
				copy(k[bb+d+1:], stem[bb+d+1:])
				k[bb+d] = byte(r.Intn(alpha + 2))
			}
			if nb > 1 && r.Chance(0.4) {
				k[0] = 2
			}
			if seen[string(k)] {
				continue
			}
			seen[string(k)] = true
			p.Keys = append(p.Keys, KeySpec{Digest: k})
		}
	}
	nk = len(p.Keys)
	n := 4 + r.Intn(37)
	for i := 0; i < n; i++ {
		op := Op{Key: r.Intn(nk)}
		switch r.Weighted([]int{35, 15, 15, 25, 10}) {
		case 0:
			op.K = "put"
		case 1:
			op.K = "update"
		case 2:
			op.K = "remove"
		case 3:
			op.K = "get"
		default:
			op.K = "flush"
		}
		p.Ops = append(p.Ops, op)
	}
	return p
}

func pow(a, b int) int {
	r := 1
	for i := 0; i < b && r < 1<<20; i++ {
		r *= a
	}
	return r
}

type ixEntry struct {
	prefix []byte
	loc    types.Block
}

func parseIx(raw []byte) ([]ixEntry, bool) {
	es, ok := parseEntries(raw)
	out := make([]ixEntry, len(es))
	for i, e := range es {
		out[i] = ixEntry{prefix: e.Prefix, loc: types.Block{Offset: types.Position(e.Off), Size: types.Size(e.Size)}}
	}
	return out, ok
}

func runIndex(p *Plan, tape *simrt.Tape, opt RunOpt) *RunOut {
	out := newOut()
	fs := newStoreFS()
	var viol *Violation
	opIdx := 0
	fail := func(class, format string, a ...any) {
		if viol == nil {
			viol = &Violation{Prop: p.Prop, Class: class, Msg: fmt.Sprintf(format, a...), OpIdx: opIdx}
		}
	}
	bb := int(p.Cfg.Bits / 8)
	probes := map[string]int{}
	w, res := world(p, tape, fs, opt, nil, func() {
		prim := inmemory.New(nil)
		fc := filecache.New(p.Cfg.FileCache)
		idx, err := index.Open(context.Background(), indexPath, prim, p.Cfg.Bits, p.Cfg.IndexFile, 0, 0, fc)
		if err != nil {
			fail("open-error", "index.Open failed: %v", err)
			return
		}
		model := map[string]types.Block{} // present keys -> latest location
		prevLists := map[uint32][]ixEntry{}
		checkList := func(op *Op, key []byte) {
			b := Bucket(key, p.Cfg.Bits)
			raw, err := idx.VerifBucketRecords(b)
			if err != nil {
				fail("index/list-read-error", "%v: reading the bucket's record list failed: %v", *op, err)
				return
			}
			ents, ok := parseIx(raw)
			if !ok {
				fail("index/list-parse", "%v: record list of bucket %d does not parse", *op, b)
				return
			}
			// sorted, prefix-free, each prefix a prefix of its own full key
			for i, e := range ents {
				if i > 0 && bytes.Compare(ents[i-1].prefix, e.prefix) >= 0 {
					fail("index/unsorted", "%v: entries %x and %x are not in strictly ascending order", *op, ents[i-1].prefix, e.prefix)
					return
				}
				for j := 0; j < i; j++ {
					if bytes.HasPrefix(e.prefix, ents[j].prefix) || bytes.HasPrefix(ents[j].prefix, e.prefix) {
						fail("index/not-prefix-free", "%v: stored prefixes %x and %x are not prefix-free", *op, ents[j].prefix, e.prefix)
						return
					}
				}
				full, _, err := prim.Get(e.loc)
				if err != nil {
					fail("index/bad-location", "%v: entry %x names location %d which the primary cannot read: %v", *op, e.prefix, e.loc.Offset, err)
					return
				}
				if !bytes.HasPrefix(full[bb:], e.prefix) {
					fail("index/prefix-of-other-key", "%v: stored prefix %x is not a prefix of its own key %x", *op, e.prefix, full[bb:])
					return
				}
			}
			// every present key of this bucket has exactly one entry with its latest location
			for ks, loc := range model {
				k := []byte(ks)
				if Bucket(k, p.Cfg.Bits) != b {
					continue
				}
				n := 0
				for _, e := range ents {
					if e.loc == loc {
						n++
					}
				}
				if n != 1 {
					fail("index/entry-count", "%v: present key %x (location %d) has %d entries in its bucket", *op, k, loc.Offset, n)
					return
				}
			}
			nPresent := 0
			for ks := range model {
				if Bucket([]byte(ks), p.Cfg.Bits) == b {
					nPresent++
				}
			}
			if len(ents) != nPresent {
				fail("index/entry-count", "%v: bucket %d has %d entries for %d present keys", *op, b, len(ents), nPresent)
				return
			}
			// an operation touches only the addressed key's entry (plus, for an
			// insertion, at most one neighbour whose prefix is lengthened)
			prev := prevLists[b]
			switch op.K {
			case "update":
				if len(prev) == len(ents) {
					for i := range ents {
						if !bytes.Equal(prev[i].prefix, ents[i].prefix) {
							fail("index/update-touched-other", "%v: update changed stored prefix %x to %x", *op, prev[i].prefix, ents[i].prefix)
							return
						}
						if prev[i].loc != ents[i].loc && ents[i].loc != model[string(key)] {
							fail("index/update-touched-other", "%v: update changed the location of another entry (%x)", *op, ents[i].prefix)
							return
						}
					}
				}
			case "remove":
				// new list must be a subsequence of the old one, identical entries
				j := 0
				for _, e := range ents {
					for j < len(prev) && !(bytes.Equal(prev[j].prefix, e.prefix) && prev[j].loc == e.loc) {
						j++
					}
					if j == len(prev) {
						fail("index/remove-touched-other", "%v: removal changed entry %x", *op, e.prefix)
						return
					}
					j++
				}
			case "put":
				changed := 0
				for _, e := range ents {
					if e.loc == model[string(key)] {
						continue
					}
					found := false
					for _, q := range prev {
						if q.loc == e.loc {
							found = true
							if !bytes.Equal(q.prefix, e.prefix) {
								changed++ // the statement allows an insertion to re-trim neighbours
							}
						}
					}
					if !found {
						fail("index/put-touched-other", "%v: insertion introduced a foreign entry %x", *op, e.prefix)
						return
					}
				}
				if changed > 0 {
					probes["neighbour-extended"]++
				}
				// every entry that was there before must still be there (by location)
				for _, q := range prev {
					found := false
					for _, e := range ents {
						if e.loc == q.loc {
							found = true
						}
					}
					if !found {
						fail("index/put-touched-other", "%v: insertion dropped the entry %x of another key", *op, q.prefix)
						return
					}
				}
			}
			prevLists[b] = ents
		}
		for i := range p.Ops {
			opIdx = i
			op := &p.Ops[i]
			key := []byte(p.Keys[op.Key%len(p.Keys)].Digest)
			loc, present := model[string(key)]
			switch op.K {
			case "put":
				if present {
					continue // the store only inserts keys that are not present
				}
				blk, _ := prim.Put(key, []byte{byte(i)})
				if err := idx.Put(key, blk); err != nil {
					fail("index/put-error", "%v returned %v", *op, err)
					return
				}
				model[string(key)] = blk
				checkList(op, key)
			case "update":
				if !present {
					continue
				}
				blk, _ := prim.Put(key, []byte{byte(i)})
				if err := idx.Update(key, blk); err != nil {
					fail("index/update-error", "%v returned %v", *op, err)
					return
				}
				model[string(key)] = blk
				checkList(op, key)
			case "remove":
				if !present {
					continue // the store only removes keys it has verified to be present
				}
				removed, err := idx.Remove(key)
				if err != nil {
					fail("index/remove-error", "%v returned %v", *op, err)
					return
				}
				if !removed {
					fail("index/remove-result", "%v of a present key reported that nothing was removed", *op)
					return
				}
				delete(model, string(key))
				checkList(op, key)
			case "get":
				got, found, err := idx.Get(key)
				if err != nil {
					fail("index/get-error", "%v returned %v", *op, err)
					return
				}
				if present {
					if !found || got != loc {
						fail("index/get-wrong-location", "%v of a present key returned (%v, found=%v), want location %v", *op, got, found, loc)
						return
					}
					probes["get-present"]++
				} else if found {
					// must be the location of some other present key
					ok := false
					for _, l := range model {
						if l == got {
							ok = true
						}
					}
					if !ok {
						fail("index/get-foreign-location", "%v of an absent key returned location %v which belongs to no present key", *op, got)
						return
					}
					probes["get-absent-aliased"]++
				}
			case "flush":
				if _, err := idx.Flush(); err != nil {
					fail("index/flush-error", "Flush returned %v", err)
					return
				}
				probes["flush"]++
			}
			if viol != nil {
				return
			}
		}
		// final: every present key resolves to its location, also after a flush
		idx.Flush()
		for ks, loc := range model {
			got, found, err := idx.Get([]byte(ks))
			if err != nil || !found || got != loc {
				fail("index/get-wrong-location", "final Get(%x) = (%v, %v, %v), want %v", ks, got, found, err, loc)
				return
			}
		}
		idx.Close()
	})
	out.addFS(fs)
	out.FinalFS = fs
	out.addProbes(probes)
	// shared prefixes make the case interesting
	shared := 0
	for i := range p.Keys {
		for j := 0; j < i; j++ {
			a, b := p.Keys[i].Digest, p.Keys[j].Digest
			if Bucket(a, p.Cfg.Bits) == Bucket(b, p.Cfg.Bits) && len(a) > bb+1 && bytes.Equal(a[bb:bb+1], b[bb:bb+1]) {
				shared++
			}
		}
	}
	if shared > 0 {
		out.Probes["shared-prefix-pairs"] = shared
	}
	finish(out, w, res, p, viol, opt)
	out.Sample = fmt.Sprintf("bits=%d ifile=%d keys=%x ops=%v", p.Cfg.Bits, p.Cfg.IndexFile, keyBytes(p.Keys), opsString(p.Ops, 14))
	return out
}

func keyBytes(ks []KeySpec) [][]byte {
	var o [][]byte
	for _, k := range ks {
		o = append(o, k.Digest)
	}
	return o
}
