package harness

import (
	"encoding/binary"
	"encoding/json"
	"fmt"
	"os"
	"sort"
	"strings"

	"github.com/ipld/go-storethehash/store/types"

	"verif/sim/simos"
	"verif/sim/simrt"
)

// C11: garbage collection actually reclaims space, in bounded cycles.

func init() {
	engines["gcprog"] = runGCProg
	generators["C11"] = genC11
}

func genC11(seed uint64, tier string) *Plan {
	r := simrt.NewRand(seed)
	p := &Plan{Engine: "gcprog", X: map[string]int{}}
	p.Cfg = StoreCfg{Primary: "multihash", Bits: []uint8{8, 8, 9, 12}[r.Intn(4)], FileCache: []int{0, 1, 2, 512}[r.Intn(4)]}
	p.Cfg.PrimaryFile = []uint32{32, 64, 100, 300, 1024}[r.Intn(5)]
	p.Cfg.IndexFile = []uint32{32, 64, 100, 300, 1024}[r.Intn(5)]
	p.Cfg.GCMs = 1000 * 3600 * 1000
	nk := 3 + r.Intn(10)
	p.Keys = GenKeys(r, nk, false)
	mix := opMix{put: 60, get: 5, remove: 12, flush: 20, reput: 3}
	vseq := 0
	ops := genSeqOps(r, 6+r.Intn(40), nk, mix, false, &vseq)
	for i := range ops {
		if ops[i].K == "put" && ops[i].VLen > 600 {
			ops[i].VLen = 20 + r.Intn(300)
		}
	}
	p.Ops = ops
	p.X["mode"] = r.Intn(3) // 0: kill chosen files; 1: low-use drain; 2: kill + index files
	p.X["thr"] = []int{101, 101, 1, 50, 74, 85}[r.Intn(6)]
	if p.X["mode"] == 1 {
		p.X["thr"] = []int{1, 50, 74, 85}[r.Intn(4)]
	}
	p.X["pick"] = r.Intn(1 << 16) // which non-current files are emptied
	p.X["overwrite"] = r.Intn(2)  // supersede by overwrite instead of removal
	p.X["interrupt"] = 0
	if r.Chance(0.2) {
		p.X["interrupt"] = 1 + r.Intn(6) // countdown contexts on some cycles
	}
	if r.Chance(0.25) {
		// background class: after the files were emptied the store is reopened
		// with its own collectors and flusher on short simulated intervals and
		// left alone; the bound is stated in GC intervals of simulated time. This
		// is what exercises the collectors' run loops (timer re-arming, the index
		// collector's skipping of the free-file scan, time-limited cycles that
		// resume), which explicit cycles bypass.
		p.X["bg"] = 1
		if p.X["mode"] == 1 {
			p.X["thr"] = 85 // the background collector's fixed low-use threshold
		}
		p.X["bg_gc_ms"] = 2 + r.Intn(30)
		p.X["bg_sync_ms"] = 1 + r.Intn(p.X["bg_gc_ms"])
		p.X["bg_limit_ms"] = []int{0, 0, 20, 60}[r.Intn(4)]
		p.X["interrupt"] = 0
		if p.X["mode"] != 1 && r.Chance(0.4) {
			// the collectors and the flusher run from the first Open on, through
			// the history and the emptying of the files (with pauses of up to two
			// GC intervals between calls), so that the final flush can land in
			// the middle of a cycle; no close/reopen before the idle phase
			p.X["bgall"] = 1
		}
		if r.Chance(0.5) {
			p.Sim.Latency = LatencyCfg{Kind: "const", Base: int64(1000 * (1 + r.Intn(200)))}
			// a time limit has to leave room for the header and at least one whole
			// file per cycle (a limited cycle resumes at the beginning of the file
			// it was in): with less, no progress is possible by design, and the
			// property does not quantify over time limits
			if int64(p.X["bg_limit_ms"])*1000000 < 150*p.Sim.Latency.Base {
				p.X["bg_limit_ms"] = 0
			}
		}
	}
	return p
}

// primaryFileStats parses a primary file: live and free payload bytes, records.
func primaryFileStats(data []byte) (live, free int64, liveRecs int, ok bool) {
	pos := 0
	for pos+4 <= len(data) {
		sz := binary.LittleEndian.Uint32(data[pos:])
		del := sz&delBit != 0
		sz &^= delBit
		if pos+4+int(sz) > len(data) {
			return live, free, liveRecs, false
		}
		if del {
			free += int64(sz)
		} else {
			live += int64(sz)
			liveRecs++
		}
		pos += 4 + int(sz)
	}
	return live, free, liveRecs, pos == len(data)
}

func filesFingerprint() uint64 {
	return fsOf().Snapshot().Hash()
}

// dataFingerprint hashes the names and contents of the non-empty files. The
// background class samples it while collectors may be mid-cycle: every primary
// GC cycle renames the (empty) freelist file to .gc, creates a fresh one and
// removes the .gc file again, which is no change of the stored bytes.
func dataFingerprint() uint64 {
	files := fsOf().Files()
	names := make([]string, 0, len(files))
	for n, d := range files {
		if len(d) > 0 {
			names = append(names, n)
		}
	}
	sort.Strings(names)
	h := uint64(0xcbf29ce484222325)
	mix := func(b []byte) {
		for _, c := range b {
			h = (h ^ uint64(c)) * 1099511628211
		}
		h = (h ^ 0xff) * 1099511628211
	}
	for _, n := range names {
		mix([]byte(n))
		mix(files[n])
	}
	return h
}

func runGCProg(p *Plan, tape *simrt.Tape, opt RunOpt) *RunOut {
	out := newOut()
	fs := newStoreFS()
	d := NewDriver(p)
	d.staticProbes()
	d.GCErrFatal = true
	pmax := uint64(p.Cfg.PrimaryFile)
	imax := uint64(p.Cfg.IndexFile)
	bgall := p.x("bgall", 0) == 1
	if os.Getenv("VERIF_DEBUG_FSLOG") != "" {
		fs.KeepLog = true
	}
	pause := simrt.NewRand(p.Seed ^ 0xb9a11)
	w, res := world(p, tape, fs, opt, nil, func() {
		if bgall {
			d.Cfg.GCMs = int64(p.x("bg_gc_ms", 10))
			d.Cfg.GCLimitMs = int64(p.x("bg_limit_ms", 0))
			d.Cfg.Flusher = true
			d.Cfg.SyncMs = p.x("bg_sync_ms", 1)
		}
		if err := d.Open(); err != nil {
			d.fail("open-error", "OpenStore failed: %v", err)
			return
		}
		for i := range p.Ops {
			d.OpIdx = i
			if bgall && pause.Chance(0.5) {
				simrt.Sleep(int64(pause.Intn(2*p.x("bg_gc_ms", 10)*1000)) * 1000)
			}
			d.Exec(&p.Ops[i])
			if d.Viol != nil {
				d.Viol = nil
				d.Probes["other-oracle-failed"]++
				return
			}
		}
		d.Exec(&Op{K: "flush"})
		if d.Viol != nil {
			d.Viol = nil
			d.Probes["other-oracle-failed"]++
			return
		}
		mp := d.mhPrimary()
		// with the flusher and the collectors running (background-from-the-start
		// class) the directory listing and the current file number are not one
		// snapshot: list first, read the number afterwards, and take the files
		// below it (the current file only ever advances, so these are non-current
		// whatever happened in between)
		listed := numberedFiles(fsOf().Files(), dataPath)
		curFile := uint64(mp.VerifCurrentFile())
		// which primary files hold live data now
		locs := d.allLocs()
		fileOf := func(b types.Block) uint64 { return uint64(b.Offset) / pmax }
		liveIn := map[uint64][]string{}
		for dg, b := range locs {
			liveIn[fileOf(b)] = append(liveIn[fileOf(b)], dg)
		}
		nonCurrent := []uint64{}
		for f := range listed {
			if uint64(f) < curFile {
				nonCurrent = append(nonCurrent, uint64(f))
			}
		}
		sort.Slice(nonCurrent, func(i, j int) bool { return nonCurrent[i] < nonCurrent[j] })
		if os.Getenv("VERIF_DEBUG_FSLOG") != "" {
			fmt.Printf("MEASURE t=%d curFile=%d nonCurrent=%v\n", simrt.Current().Now(), curFile, nonCurrent)
		}
		if len(nonCurrent) == 0 {
			d.Probes["no-noncurrent-file"]++
			d.CloseStore("final")
			return
		}
		mode := p.x("mode", 0)
		thr := p.x("thr", 101)
		vseq := 500000
		digestIdx := map[string]int{}
		for i, k := range p.Keys {
			digestIdx[string(k.Digest)] = i
		}
		supersede := func(dg string) {
			ki := digestIdx[dg]
			if p.x("overwrite", 0) == 1 {
				vseq++
				d.Exec(&Op{K: "put", Key: ki, VSeq: vseq, VLen: 8 + vseq%40})
			} else {
				d.Exec(&Op{K: "remove", Key: ki})
			}
		}
		target := map[uint64]bool{}
		moved := 0
		switch mode {
		case 0, 2:
			// empty a chosen subset of the non-current files (always at least one)
			pick := p.x("pick", 1)
			for i, f := range nonCurrent {
				if pick>>(uint(i)%16)&1 == 1 || i == pick%len(nonCurrent) {
					target[f] = true
				}
			}
			for f := range target {
				dgs := liveIn[f]
				sort.Strings(dgs)
				for _, dg := range dgs {
					supersede(dg)
					moved++
					if d.Viol != nil {
						d.Viol = nil
						d.Probes["other-oracle-failed"]++
						return
					}
				}
			}
		case 1:
			// make some files low-use: supersede most of their records
			for _, f := range nonCurrent {
				dgs := liveIn[f]
				sort.Strings(dgs)
				for i, dg := range dgs {
					if i == 0 && len(dgs) > 1 {
						continue // keep one record alive
					}
					if (p.x("pick", 0)>>(uint(f)%16))&1 == 1 {
						supersede(dg)
						moved++
					}
				}
			}
		}
		d.Exec(&Op{K: "flush"})
		if d.Viol != nil {
			d.Viol = nil
			d.Probes["other-oracle-failed"]++
			return
		}
		if uint64(mp.VerifCurrentFile()) != curFile {
			d.Probes["current-file-advanced"]++
		}
		curFile = uint64(mp.VerifCurrentFile())
		oldFirst := readPrimaryFirst()

		if mode == 1 {
			// low-use targets: free share clearly above the threshold (5% margin)
			pf := numberedFiles(fsOf().Files(), dataPath)
			// the freelist has not been applied yet: compute the share as it will
			// be once the superseded records are marked
			cur := d.allLocs()
			liveBytes := map[uint64]int64{}
			liveRecs := map[uint64]int{}
			for _, b := range cur {
				liveBytes[fileOf(b)] += int64(b.Size)
				liveRecs[fileOf(b)]++
			}
			for f, data := range pf {
				if uint64(f) == curFile || len(data) == 0 {
					continue
				}
				l, fr, _, ok := primaryFileStats(data)
				if !ok {
					continue
				}
				total := l + fr
				lv := liveBytes[uint64(f)]
				if total > 0 && lv > 0 && 100*(total-lv) >= int64(thr+5)*total {
					target[uint64(f)] = true
					moved += liveRecs[uint64(f)]
				}
				if total > 0 && lv == 0 {
					target[uint64(f)] = true
				}
			}
			if len(target) == 0 {
				d.Probes["no-low-use-file"]++
				d.CloseStore("final")
				return
			}
			d.Probes["low-use-targets"] += len(target)
		}

		released := func() []uint64 {
			var left []uint64
			files := fsOf().Files()
			for f := range target {
				data, ok := files[fmt.Sprintf("%s.%d", dataPath, f)]
				if !ok || len(data) == 0 {
					continue
				}
				if mode == 1 {
					// a low-use target is also done once it is no longer low-use:
					// truncating its dead tail can leave a file that is all live
					// (nothing left to reclaim), and the premise of the clause is
					// gone. Liveness is what the index refers to now, not the
					// deleted marks (GC may not have applied the freelist yet).
					if l, fr, _, ok := primaryFileStats(data); ok {
						total := l + fr
						var live int64
						for _, b := range d.allLocs() {
							if fileOf(b) == f {
								live += int64(b.Size)
							}
						}
						if live > 0 && 100*(total-live) < int64(thr)*total {
							continue
						}
					}
				}
				left = append(left, f)
			}
			sort.Slice(left, func(i, j int) bool { return left[i] < left[j] })
			return left
		}
		B := 10 + 4*moved
		if mode == 1 {
			B = 12 + 6*moved
		}
		if n := p.x("interrupt", 0); n > 0 {
			B *= 3
		}
		if p.x("bg", 0) == 1 {
			// with the collectors running from the start a file can have been
			// emptied and marked visited while an older file still existed; the
			// statement only promises the unlink for a file that is the oldest when
			// it is visited, which is certain only if it still held live records
			// when the emptying began (their freelist entries make GC revisit it)
			checkOldest := p.x("bgall", 0) != 1 || len(liveIn[uint64(oldFirst)]) > 0
			d.gcProgBackground(p, target, oldFirst, B, imax, len(locs)+len(nonCurrent), released, checkOldest)
			return
		}
		rounds := 0
		for ; rounds < B && len(released()) > 0; rounds++ {
			op := Op{K: "pgc", A: thr}
			if n := p.x("interrupt", 0); n > 0 && rounds%2 == 0 {
				op.B = n + rounds
			}
			sizeBefore, _ := d.St.StorageSize()
			locsBefore := d.allLocs()
			d.Exec(&op)
			if d.Viol != nil {
				return
			}
			if thr >= 101 {
				sizeAfter, _ := d.St.StorageSize()
				if sizeAfter > sizeBefore {
					d.fail("gcprog/storage-grew", "a primary GC cycle without relocation increased StorageSize from %d to %d", sizeBefore, sizeAfter)
					return
				}
			}
			pBefore, _ := d.St.PrimaryStorageSize()
			d.Exec(&Op{K: "flush"})
			if d.Viol != nil {
				return
			}
			// conservation: only relocated records may add to the primary
			var relocated int64
			for dg, b := range d.allLocs() {
				if ob, ok := locsBefore[dg]; ok && ob != b {
					relocated += int64(b.Size) + 4
				}
			}
			pAfter, _ := d.St.PrimaryStorageSize()
			if pAfter > pBefore+relocated+64 { // header rewrites may change by a few bytes
				d.fail("gcprog/primary-grew", "flush after a GC cycle grew the primary from %d to %d bytes although only %d bytes were relocated", pBefore, pAfter, relocated)
				return
			}
			d.ReadBack("gcprog")
			if d.Viol != nil {
				d.Viol = nil
				d.Probes["other-oracle-failed"]++
				return
			}
			if os.Getenv("VERIF_DEBUG_DUMP") != "" {
				for f := range target {
					data := fsOf().Files()[fmt.Sprintf("%s.%d", dataPath, f)]
					l, fr, n, ok := primaryFileStats(data)
					fmt.Printf("round %d file %d: len=%d live=%d free=%d liveRecs=%d ok=%v\n", rounds, f, len(data), l, fr, n, ok)
				}
			}
		}
		if left := released(); len(left) > 0 {
			d.fail("gcprog/primary-not-released", "after %d rounds of (primary GC threshold %d, Flush) primary files %v still hold bytes although every record in them was superseded (mode %d, %d records moved, current file %d)", rounds, thr, left, mode, moved, curFile)
			return
		}
		d.Probes["primary-released"] += len(target)
		d.Probes["gc-rounds"] += rounds
		// clean sub-case: the oldest file was among the emptied ones -> unlinked
		// and the header's first file advanced
		stillLive := false
		if data, ok := fsOf().Files()[fmt.Sprintf("%s.%d", dataPath, oldFirst)]; ok && len(data) > 0 && mode == 1 {
			stillLive = true // a former low-use file that is all live now (see released())
		}
		if target[uint64(oldFirst)] && !stillLive {
			if _, ok := fsOf().Files()[fmt.Sprintf("%s.%d", dataPath, oldFirst)]; ok {
				d.fail("gcprog/oldest-not-unlinked", "the oldest primary file %d was emptied but still exists after %d rounds", oldFirst, rounds)
				return
			}
			if nf := readPrimaryFirst(); nf <= oldFirst {
				d.fail("gcprog/first-file-not-advanced", "the oldest primary file %d was unlinked but the header still says FirstFile=%d", oldFirst, nf)
				return
			}
			d.Probes["oldest-unlinked"]++
		}

		if mode == 2 {
			// index files no bucket refers into
			curIdx := uint64(d.St.Index().VerifCurrentFile())
			busy := map[uint64]bool{}
			for _, pos := range d.St.Index().VerifBuckets() {
				if pos != 0 {
					busy[(uint64(pos)-4)/imax] = true
				}
			}
			var cand []uint64
			for f, data := range numberedFiles(fsOf().Files(), indexPath) {
				if uint64(f) != curIdx && !busy[uint64(f)] && len(data) > 0 {
					cand = append(cand, uint64(f))
				}
			}
			sort.Slice(cand, func(i, j int) bool { return cand[i] < cand[j] })
			nIdx := len(numberedFiles(fsOf().Files(), indexPath))
			Bi := 2 + nIdx
			left := cand
			r := 0
			for ; r < Bi && len(left) > 0; r++ {
				sizeBefore, _ := d.St.StorageSize()
				d.Exec(&Op{K: "igc", A: b2i(r < 2)})
				if d.Viol != nil {
					return
				}
				if sizeAfter, _ := d.St.StorageSize(); sizeAfter > sizeBefore {
					d.fail("gcprog/storage-grew", "an index GC cycle increased StorageSize from %d to %d", sizeBefore, sizeAfter)
					return
				}
				d.Exec(&Op{K: "flush"})
				left = nil
				files := fsOf().Files()
				for _, f := range cand {
					if data, ok := files[fmt.Sprintf("%s.%d", indexPath, f)]; ok && len(data) != 0 {
						left = append(left, f)
					}
				}
			}
			if len(left) > 0 {
				d.fail("gcprog/index-not-released", "after %d index GC cycles index files %v still hold bytes although no bucket refers into them", r, left)
				return
			}
			d.Probes["index-released"] += len(cand)
		}

		// fixed point: repeated cycles on an unchanged store stop writing
		Bfp := 4 + len(locs) + len(nonCurrent) + 2
		stable := 0
		for r := 0; r < Bfp+3 && stable < 3; r++ {
			before := filesFingerprint()
			d.Exec(&Op{K: "pgc", A: thr})
			d.Exec(&Op{K: "igc", A: 1})
			d.Exec(&Op{K: "flush"})
			if d.Viol != nil {
				return
			}
			if filesFingerprint() == before {
				stable++
			} else {
				if stable > 0 {
					d.fail("gcprog/fixed-point-left", "a round of (primary GC, index GC, Flush) changed files again after a round that changed nothing")
					return
				}
				stable = 0
			}
		}
		if stable < 3 {
			d.fail("gcprog/no-fixed-point", "repeated GC rounds on an unchanged store (threshold %d) never reached a fixed point within %d rounds", thr, Bfp+3)
			return
		}
		d.Probes["fixed-point"]++
		d.ReadBack("gcprog-final")
		if d.Viol != nil {
			d.Viol = nil
			d.Probes["other-oracle-failed"]++
			return
		}
		d.CloseStore("final")
	})
	d.fileProbes(fs)
	out.addFS(fs)
	out.FinalFS = fs
	out.addDriver(d)
	finish(out, w, res, p, d.Viol, opt)
	out.Sample = fmt.Sprintf("cfg=%+v x=%v ops=%v", p.Cfg, p.X, opsString(p.Ops, 10))
	return out
}

// gcProgBackground is the background class of C11: the store is reopened with
// its own flusher and collectors and left idle; the files in target (primary
// files all of whose records were superseded and flushed) and the index files no
// bucket refers into must be released within a bounded number of GC intervals
// of simulated time, and after that the files must stop changing.
func (d *Driver) gcProgBackground(p *Plan, target map[uint64]bool, oldFirst uint32, B int, imax uint64, nfix int, released func() []uint64, checkOldest bool) {
	// index files no bucket refers into. In the collectors-from-the-start class
	// the flusher may roll the index over while this is computed, so the three
	// reads are ordered to stay sound: listing first, then the current file
	// number (only files below it), then the bucket table (a file below the
	// current one that no bucket refers into now is never referred into again)
	listedIdx := numberedFiles(fsOf().Files(), indexPath)
	curIdx := uint64(d.St.Index().VerifCurrentFile())
	busy := map[uint64]bool{}
	for _, pos := range d.St.Index().VerifBuckets() {
		if pos != 0 {
			busy[(uint64(pos)-4)/imax] = true
		}
	}
	var cand []uint64
	if p.x("mode", 0) == 2 {
		for f, data := range listedIdx {
			if uint64(f) < curIdx && !busy[uint64(f)] && len(data) > 0 {
				cand = append(cand, uint64(f))
			}
		}
		sort.Slice(cand, func(i, j int) bool { return cand[i] < cand[j] })
	}
	nIdx := len(numberedFiles(fsOf().Files(), indexPath))
	if os.Getenv("VERIF_DEBUG_LEAK") != "" {
		d.Ledger = newLedger()
		d.CheckLeaks("before the background phase")
		if d.Viol != nil {
			return
		}
	}
	gcMs := p.x("bg_gc_ms", 10)
	if p.x("bgall", 0) != 1 {
		if !d.CloseStore("gcprog-bg") {
			return
		}
		d.Cfg.GCMs = int64(gcMs)
		d.Cfg.GCLimitMs = int64(p.x("bg_limit_ms", 0))
		d.Cfg.Flusher = true
		d.Cfg.SyncMs = p.x("bg_sync_ms", 1)
		if err := d.Open(); err != nil {
			d.fail("gcprog/open-error", "reopen with background collectors failed: %v", err)
			return
		}
	} else {
		d.cprobe("bg-from-start")
	}
	// cycles are counted on the simulated disk: every primary GC cycle begins by
	// renaming the freelist file to .gc, every index GC cycle by opening the
	// index header (nothing else does either on an idle store). The bounds below
	// are in cycles; simulated time only caps the wait.
	var pcycles, icycles int
	fs := fsOf()
	prevHook := fs.Hook
	fs.Hook = func(f *simos.FS, rec *simos.OpRec, data []byte) simos.Action {
		switch {
		case rec.Kind == simos.OpRename && strings.HasSuffix(rec.Path2, ".free.gc"):
			pcycles++
		case rec.Kind == simos.OpOpen && rec.Path == indexPath+".info":
			icycles++
		}
		if prevHook != nil {
			return prevHook(f, rec, data)
		}
		return simos.Action{}
	}
	defer func() { fs.Hook = prevHook }()
	cyclesBoth := func() int {
		if pcycles < icycles {
			return pcycles
		}
		return icycles
	}
	left := func() (pl, il []uint64) {
		files := fsOf().Files()
		pl = released() // same completion rule as the explicit-cycle classes
		for _, f := range cand {
			if data, ok := files[fmt.Sprintf("%s.%d", indexPath, f)]; ok && len(data) != 0 {
				il = append(il, f)
			}
		}
		sort.Slice(il, func(i, j int) bool { return il[i] < il[j] })
		return
	}
	// bound, in GC intervals: the explicit-cycle bound for the primary, the
	// index bound plus the longest run of cycles that skip the free-file scan;
	// tripled when cycles are time-limited (a limited cycle resumes where it
	// stopped), plus the half interval by which the primary collector is offset
	K := B + 2 + nIdx + 12
	if d.Cfg.GCLimitMs > 0 {
		K *= 3
	}
	// wait until both collectors have completed K cycles (a cycle can take
	// longer than the interval when the disk is slow); the cap on simulated time
	// only catches collectors that stop cycling altogether
	waited := 0
	// how long one cycle can take on the simulated disk, in intervals: a cycle
	// touches each file a bounded number of times and each record a few times
	var totalBytes int
	nfiles := 0
	for _, data := range fsOf().Files() {
		nfiles++
		totalBytes += len(data)
	}
	opsPerCycle := int64(100 + 12*nfiles + totalBytes/5)
	perCycle := 2 + int((opsPerCycle*p.Sim.Latency.Base)/(int64(gcMs)*1000000))
	capIntervals := K * perCycle
	start := cyclesBoth()
	pl, il := left()
	for ; (len(pl) > 0 || len(il) > 0) && cyclesBoth()-start < K && waited < capIntervals; waited++ {
		simrt.Sleep(int64(gcMs) * 1000000)
		// the completion rule is evaluated once per step and its verdict kept: a
		// low-use target is done as soon as it is no longer low-use, and a later
		// relocation out of it (the collector's own accounting counts size
		// prefixes and may still see it just above the threshold) does not
		// re-open the obligation
		pl, il = left()
	}
	if len(pl) > 0 || len(il) > 0 {
		if cyclesBoth()-start < K {
			d.fail("gcprog/bg-collector-stalled", "an idle store with background collectors (interval %d ms) completed only %d primary and %d index GC cycles in %d intervals of simulated time; primary files %v, index files %v still hold bytes", gcMs, pcycles, icycles, waited, pl, il)
		} else if len(pl) > 0 {
			diag := ""
			for _, f := range pl {
				data := fsOf().Files()[fmt.Sprintf("%s.%d", dataPath, f)]
				l, fr, n, ok := primaryFileStats(data)
				var live int64
				for _, b := range d.allLocs() {
					if uint64(b.Offset)/uint64(d.Cfg.PrimaryFile) == f {
						live += int64(b.Size)
					}
				}
				offs := ""
				for pos := 0; pos+4 <= len(data); {
					sz := binary.LittleEndian.Uint32(data[pos:])
					if sz&delBit == 0 {
						offs += fmt.Sprintf(" %d(+%d)", uint64(f)*uint64(d.Cfg.PrimaryFile)+uint64(pos), sz)
					}
					pos += 4 + int(sz&^delBit)
				}
				diag += fmt.Sprintf(" [file %d: %d bytes, unmarked %d in %d records at%s, marked free %d, referenced by the index %d, parses=%v]", f, len(data), l, n, offs, fr, live, ok)
			}
			if os.Getenv("VERIF_DEBUG_FSLOG") != "" {
				for _, r := range fsOf().Log {
					for _, f := range pl {
						if strings.HasSuffix(r.Path, fmt.Sprintf("data.%d", f)) || strings.Contains(r.Path, "data.info") || strings.Contains(r.Path, ".free") {
							fmt.Printf("FSLOG seq=%d t=%d task=%d %s %s %s off=%d n=%d\n", r.Seq, r.Now, r.Task, r.Kind, r.Path, r.Path2, r.Off, r.N)
						}
					}
				}
			}
			d.fail("gcprog/bg-primary-not-released", "after %d primary and %d index GC cycles of the background collectors (interval %d ms, time limit %d ms) on an idle store, primary files %v still hold bytes although every record in them was superseded and flushed%s", pcycles, icycles, gcMs, d.Cfg.GCLimitMs, pl, diag)
		} else {
			d.fail("gcprog/bg-index-not-released", "after %d primary and %d index GC cycles of the background collectors (interval %d ms, time limit %d ms) on an idle store, index files %v still hold bytes although no bucket refers into them", pcycles, icycles, gcMs, d.Cfg.GCLimitMs, il)
		}
		return
	}
	d.cprobe("bg-released")
	d.Probes["bg-intervals-waited"] += waited
	d.Probes["bg-cycles"] += cyclesBoth() - start
	if target[uint64(oldFirst)] && p.x("mode", 0) != 1 && checkOldest {
		if _, ok := fsOf().Files()[fmt.Sprintf("%s.%d", dataPath, oldFirst)]; ok {
			// emptied by truncation; unlinked when it is visited as the oldest file
			c0 := pcycles
			for i := 0; pcycles-c0 < K && i < capIntervals; i++ {
				if _, ok := fsOf().Files()[fmt.Sprintf("%s.%d", dataPath, oldFirst)]; !ok {
					break
				}
				simrt.Sleep(int64(gcMs) * 1000000)
			}
		}
		if _, ok := fsOf().Files()[fmt.Sprintf("%s.%d", dataPath, oldFirst)]; ok {
			d.fail("gcprog/bg-oldest-not-unlinked", "the oldest primary file %d was emptied but still exists after %d more primary GC cycles of the background collector", oldFirst, K)
			return
		}
		if nf := readPrimaryFirst(); nf <= oldFirst {
			d.fail("gcprog/first-file-not-advanced", "the oldest primary file %d was unlinked but the header still says FirstFile=%d", oldFirst, nf)
			return
		}
		d.cprobe("oldest-unlinked")
	}
	// fixed point: an idle store with running collectors stops writing
	stable := 0
	Bfp := 4 + nfix + 2 + 12
	if d.Cfg.GCLimitMs > 0 {
		Bfp *= 3
	}
	// one step = at least one more cycle of each collector
	for r := 0; r < Bfp+3 && stable < 3; r++ {
		before := dataFingerprint()
		c0 := cyclesBoth()
		for i := 0; cyclesBoth() == c0 && i < 2*perCycle; i++ {
			simrt.Sleep(int64(gcMs) * 1000000)
		}
		if dataFingerprint() == before {
			stable++
		} else {
			stable = 0
		}
	}
	if stable < 3 {
		d.fail("gcprog/bg-no-fixed-point", "an idle store with background collectors (interval %d ms) kept changing the contents of its files for %d GC cycles", gcMs, Bfp+3)
		return
	}
	d.cprobe("fixed-point")
	d.ReadBack("gcprog-bg-final")
	if d.Viol != nil {
		d.Viol = nil
		d.Probes["other-oracle-failed"]++
		return
	}
	d.CloseStore("final")
}

func b2i(b bool) int {
	if b {
		return 1
	}
	return 0
}

func readPrimaryFirst() uint32 {
	data, ok := fsOf().ReadFileDirect(dataPath + ".info")
	if !ok {
		return 0
	}
	var h priHeader
	json.Unmarshal(data, &h)
	return h.FirstFile
}
