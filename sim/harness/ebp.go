package harness

import (
	"fmt"
	"strings"

	"verif/sim/simrt"
	"verif/sim/simsync"
)

// C12: rate-limited writers are always released. Writers burst into a store
// with a tiny burst rate so that flushTick makes them wait; a watchdog in the
// main task checks bounded liveness: no writer stays parked at the flush-notice
// receive for more than M sync intervals of simulated time while flushes keep
// succeeding.

func init() {
	engines["bp"] = runBP
	generators["C12"] = genC12
}

func genC12(seed uint64, tier string) *Plan {
	r := simrt.NewRand(seed)
	p := &Plan{Engine: "bp", X: map[string]int{}}
	p.Cfg = StoreCfg{Primary: "multihash", Bits: 8, IndexFile: 1 << 30, PrimaryFile: 1 << 30, FileCache: 512}
	if r.Chance(0.2) {
		p.Cfg.Primary = "CID"
	}
	if r.Chance(0.3) {
		p.Cfg.PrimaryFile = []uint32{64, 300, 1024}[r.Intn(3)]
		p.Cfg.IndexFile = []uint32{64, 300, 1024}[r.Intn(3)]
	}
	p.Cfg.Flusher = true
	p.Cfg.Burst = uint64(32 + r.Intn(481))
	p.Cfg.SyncMs = []int{10, 30, 100, 300, 1000}[r.Intn(5)]
	p.Cfg.SyncOnFlush = r.Chance(0.2)
	nk := 2 + r.Intn(6)
	p.Keys = GenKeys(r, nk, false)
	nw := 1
	if r.Chance(0.6) {
		nw = 1 + r.Intn(3)
	}
	vseq := 0
	for c := 0; c < nw; c++ {
		var ops []Op
		n := 3 + r.Intn(12)
		for i := 0; i < n; i++ {
			if r.Chance(0.8) {
				vseq++
				ops = append(ops, Op{K: "put", Key: r.Intn(nk), VSeq: vseq, VLen: 16 + r.Intn(400)})
			} else {
				ops = append(ops, Op{K: "remove", Key: r.Intn(nk)})
			}
			if r.Chance(0.1) {
				ops = append(ops, Op{K: "sleep", A: 1 + r.Intn(20000)})
			}
		}
		p.Clients = append(p.Clients, ops)
	}
	if r.Chance(0.35) {
		var fl []Op
		for i := 0; i < 1+r.Intn(4); i++ {
			fl = append(fl, Op{K: "sleep", A: 1 + r.Intn(30000)}, Op{K: "flush"})
		}
		p.Clients = append(p.Clients, fl)
	}
	// measured flush rate: either through disk latency, or set directly
	if r.Chance(0.6) {
		p.Sim.Latency = LatencyCfg{Kind: "perbyte", Base: int64(1000 * (1 + r.Intn(100))), PerByte: int64(10 + r.Intn(2000))}
	} else {
		p.Sim.Latency = genLatency(r)
	}
	if r.Chance(0.5) {
		p.X["rate"] = 1 + r.Intn(5000) // bytes/s handed to VerifSetFlushRate
	}
	// PCT / sticky strategies let a complete flush fit between two yields of a writer
	switch r.Intn(4) {
	case 0:
		p.Sim.Strategy = simrt.Strategy{Kind: "pct", Depth: 1 + r.Intn(3), Horizon: 100 + r.Intn(1500)}
	case 1:
		p.Sim.Strategy = simrt.Strategy{Kind: "sticky", Stick: 0.95}
	case 2:
		p.Sim.Strategy = simrt.Strategy{Kind: "sticky", Stick: 0.7}
	default:
		p.Sim.Strategy = simrt.Strategy{Kind: "random"}
	}
	p.Sim.MaxSteps = 80000
	switch {
	case r.Chance(0.25):
		// without it writers are either blocked or run in zero simulated time, so
		// they are never runnable at the instant the flusher's ticker fires
		p.Sim.JitterNs = int64(5+r.Intn(300)) * 1000
	case r.Chance(0.25):
		p.Sim.PreemptEvery = 20 + r.Intn(200)
		p.Sim.PreemptNs = int64(100+r.Intn(20000)) * 1000
	}
	return p
}

func runBP(p *Plan, tape *simrt.Tape, opt RunOpt) *RunOut {
	out := newOut()
	fs := newStoreFS()
	d := NewDriver(p)
	d.Cfg.Flusher = true // the property is about a store whose flusher runs
	if d.Cfg.SyncMs <= 0 {
		d.Cfg.SyncMs = 1000
	}
	cs := &concState{p: p, d: d, hists: make([][]HistOp, len(p.Clients)+1)}
	done := make([]bool, len(p.Clients))
	taskOf := make([]*simrt.Task, len(p.Clients))
	waitSeq := make([]int, len(p.Clients))
	for i := range waitSeq {
		waitSeq[i] = -1
	}
	// flushSeq counts Flush calls of the periodic flusher that ran to completion:
	// the flusher task comes back to a select of Store.run after having executed
	// something other than selects and ticker operations (i.e. Store.Flush).
	flushSeq := 0
	flusherWorked := false
	var closeErr error
	hook := func(w *simrt.World, t *simrt.Task, kind string) {
		if strings.Contains(t.Name, "Store.Start") {
			if strings.HasPrefix(kind, "select@") && strings.Contains(kind, "Store.run") {
				if flusherWorked {
					flushSeq++
					flusherWorked = false
				}
			} else if !strings.HasPrefix(kind, "Ticker") && !strings.HasPrefix(kind, "NewTicker") && kind != "start" {
				flusherWorked = true
			}
		}
		for ci, ct := range taskOf {
			if ct == nil || done[ci] {
				continue
			}
			k, _ := ct.Pending()
			if ct != t && strings.HasPrefix(k, "recv@") && strings.Contains(k, "flushTick") && w.Blocked(ct) {
				if waitSeq[ci] < 0 {
					waitSeq[ci] = flushSeq
					d.Probes["writer-waited"]++
				} else if flushSeq-waitSeq[ci] >= 3 && cs.viol == nil {
					cs.fail("bp/writer-stuck", "client %d is still parked in the rate limiter (%s) although the periodic flusher has completed %d flushes since the wait began (at least %d of them started after it)",
						ci, k, flushSeq-waitSeq[ci], flushSeq-waitSeq[ci]-1)
					w.Stop(simrt.OutStopped, "writer stuck")
				}
			} else {
				waitSeq[ci] = -1
			}
		}
	}
	w, res := world(p, tape, fs, opt, func(w *simrt.World) { w.StepHook = hook }, func() {
		if err := d.Open(); err != nil {
			cs.fail("open-error", "OpenStore failed: %v", err)
			return
		}
		if r := p.x("rate", 0); r > 0 {
			d.St.VerifSetFlushRate(float64(r))
		}
		wld := simrt.Current()
		var wg simsync.WaitGroup
		for ci := range p.Clients {
			ci := ci
			wg.Add(1)
			simrt.Go(fmt.Sprintf("client%d", ci), func() {
				defer wg.Done()
				taskOf[ci] = wld.CurTask()
				cs.client(ci, p.Clients[ci])
				done[ci] = true
			})
		}
		wg.Wait()
		if cs.viol != nil {
			return
		}
		closeErr = d.St.Close()
	})
	out.addFS(fs)
	out.FinalFS = fs
	out.addDriver(d)
	viol := cs.viol
	if viol == nil && closeErr != nil {
		viol = &Violation{Prop: p.Prop, Class: "bp/close-error", Msg: "Close returned " + closeErr.Error()}
	}
	finish(out, w, res, p, viol, opt)
	if out.Viol != nil && out.Viol.Class == "deadlock" {
		out.Viol.Class = "bp/deadlock"
	}
	if out.Viol == nil && res.Outcome == simrt.OutCapped {
		// the step budget ran out: report who was parked (never a violation)
		out.Inconclusive = res.Reason
	}
	out.Sample = fmt.Sprintf("cfg=%+v clients=%s latency=%+v rate=%d strategy=%+v", d.Cfg, clientsString(p.Clients), p.Sim.Latency, p.x("rate", 0), p.Sim.Strategy)
	return out
}
