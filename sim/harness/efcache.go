package harness

import (
	"fmt"
	"io"
	"strings"

	"github.com/ipld/go-storethehash/store/filecache"

	"verif/sim/simos"
	"verif/sim/simrt"
	"verif/sim/simsync"
)

// C14: the file cache never closes a handle that is still lent out. 1-3 tasks
// drive a bare FileCache over the simulated disk; invariants are checked from
// the cache's white-box state and from the disk's handle ledger.

func init() {
	engines["fcache"] = runFCache
	generators["C14"] = genC14
}

func genC14(seed uint64, tier string) *Plan {
	r := simrt.NewRand(seed)
	p := &Plan{Engine: "fcache", X: map[string]int{}}
	p.X["cap"] = r.Intn(4)
	p.X["names"] = 1 + r.Intn(3)
	p.X["shape"] = []int{0, 0, 0, 1, 2, 3}[simrt.SplitMix(seed^0x5a9e)%6]
	nt := 1
	if r.Chance(0.4) {
		nt = 2 + r.Intn(2)
	}
	total := 4 + r.Intn(22)
	for t := 0; t < nt; t++ {
		var ops []Op
		for i := 0; i < total/nt+1; i++ {
			switch r.Weighted([]int{35, 30, 8, 5, 12, 3, 7}) {
			case 0:
				ops = append(ops, Op{K: "open", A: r.Intn(p.X["names"])})
			case 1:
				ops = append(ops, Op{K: "close", A: r.Intn(8)})
			case 2:
				ops = append(ops, Op{K: "rm", A: r.Intn(p.X["names"])})
			case 3:
				ops = append(ops, Op{K: "clear"})
			case 4:
				ops = append(ops, Op{K: "resize", A: r.Intn(4)})
			case 5:
				ops = append(ops, Op{K: "len"})
			default:
				ops = append(ops, Op{K: "use", A: r.Intn(8)})
			}
		}
		p.Clients = append(p.Clients, ops)
	}
	p.Sim = genSim(r)
	return p
}

type fcState struct {
	p    *Plan
	c    *filecache.FileCache
	held [][]*simos.File // per task: handles lent out to it
	viol *Violation
}

func (s *fcState) fail(class, format string, a ...any) {
	if s.viol == nil {
		s.viol = &Violation{Prop: s.p.Prop, Class: class, Msg: fmt.Sprintf(format, a...)}
	}
}

// fcShape is the spelling of the file names of the running plan: 0 absolute and
// clean, 1 with a "." element, 2 with a doubled separator, 3 relative. A cache
// keyed by name must work for whatever spelling its caller uses consistently.
// (One world at a time per process, set at the start of each run.)
var fcShape int

func fcName(i int) string {
	switch fcShape {
	case 1:
		return fmt.Sprintf("/fc/./file%d", i)
	case 2:
		return fmt.Sprintf("/fc//file%d", i)
	case 3:
		return fmt.Sprintf("fc/file%d", i)
	}
	return fmt.Sprintf("/fc/file%d", i)
}

// checkInvariants compares the cache's state with the handle ledger. Only
// called when no other task is inside the cache.
func (s *fcState) checkInvariants(where string) {
	fs := fsOf()
	capacity, ents := s.c.VerifState()
	lent := map[*simos.File]int{}
	for _, hs := range s.held {
		for _, h := range hs {
			lent[h]++
		}
	}
	known := map[*simos.File]bool{}
	cached := 0
	for _, e := range ents {
		known[e.File] = true
		if !e.Removed {
			cached++
		}
		if e.Refs < 0 {
			s.fail("fcache/negative-refs", "%s: entry %s has reference count %d", where, e.Name, e.Refs)
			return
		}
		if e.Refs != lent[e.File] {
			s.fail("fcache/refs-mismatch", "%s: entry %s (removed=%v) has reference count %d but %d references are lent out", where, e.Name, e.Removed, e.Refs, lent[e.File])
			return
		}
		if e.Removed && e.Refs == 0 {
			s.fail("fcache/removed-unreferenced", "%s: removed handle %s is kept with zero references", where, e.Name)
			return
		}
	}
	if capacity != 0 && cached > capacity {
		s.fail("fcache/over-capacity", "%s: %d files cached with capacity %d", where, cached, capacity)
		return
	}
	if len(fs.UseAfterClose) > 0 {
		s.fail("fcache/use-after-close", "%s: operation on a closed handle: %s", where, strings.Join(fs.UseAfterClose, "; "))
		return
	}
	if len(fs.DoubleClose) > 0 {
		s.fail("fcache/double-close", "%s: handle closed twice: %s", where, strings.Join(fs.DoubleClose, "; "))
		return
	}
	// every lent handle must still be open; every open handle must be cached or lent
	for h := range lent {
		if h.IsClosed() {
			s.fail("fcache/closed-while-lent", "%s: handle %s is closed while still lent out", where, h.Name())
			return
		}
	}
	open := fs.OpenFiles()
	for _, h := range open {
		if lent[h] == 0 && !known[h] {
			s.fail("fcache/leaked-handle", "%s: handle %s is open but neither cached nor lent out (it was never closed)", where, h.Name())
			return
		}
	}
	if len(open) > capacity+len(lent) {
		s.fail("fcache/too-many-descriptors", "%s: %d descriptors open with capacity %d and %d handles lent out", where, len(open), capacity, len(lent))
	}
}

func (s *fcState) task(ti int, ops []Op, single bool) {
	for i := range ops {
		if s.viol != nil {
			return
		}
		op := &ops[i]
		switch op.K {
		case "open":
			f, err := s.c.Open(fcName(op.A))
			if err != nil {
				s.fail("fcache/open-error", "Open(%s) failed: %v", fcName(op.A), err)
				return
			}
			s.held[ti] = append(s.held[ti], f)
		case "close":
			if len(s.held[ti]) == 0 {
				continue
			}
			k := op.A % len(s.held[ti])
			f := s.held[ti][k]
			// the handle must be usable right up to its Close
			if _, err := f.ReadAt(make([]byte, 1), 0); err != nil && err != io.EOF {
				s.fail("fcache/closed-while-lent", "ReadAt on lent handle %s failed: %v", f.Name(), err)
				return
			}
			s.held[ti] = append(s.held[ti][:k], s.held[ti][k+1:]...)
			if err := s.c.Close(f); err != nil {
				s.fail("fcache/close-error", "Close(%s) of a lent handle returned %v", f.Name(), err)
				return
			}
		case "use":
			if len(s.held[ti]) == 0 {
				continue
			}
			f := s.held[ti][op.A%len(s.held[ti])]
			if _, err := f.ReadAt(make([]byte, 1), 0); err != nil && err != io.EOF {
				s.fail("fcache/closed-while-lent", "ReadAt on lent handle %s failed: %v", f.Name(), err)
				return
			}
		case "rm":
			s.c.Remove(fcName(op.A))
		case "clear":
			s.c.Clear()
		case "resize":
			s.c.SetCacheSize(op.A)
		case "len":
			n, c := s.c.Len(), s.c.Cap()
			if single && c != 0 && n > c { // two calls: only meaningful without concurrent resizes
				s.fail("fcache/over-capacity", "Len()=%d exceeds Cap()=%d", n, c)
				return
			}
		}
		if single {
			s.checkInvariants(fmt.Sprintf("after task %d op %d (%v)", ti, i, *op))
		}
	}
}

func runFCache(p *Plan, tape *simrt.Tape, opt RunOpt) *RunOut {
	out := newOut()
	fs := simos.NewFS()
	fcShape = p.x("shape", 0)
	fs.MkdirAllDirect("/fc")
	fs.MkdirAllDirect("/cwd/fc")
	for i := 0; i < 3; i++ {
		fs.WriteFileDirect(fcName(i), []byte{byte(i), 1, 2, 3})
	}
	st := &fcState{p: p, held: make([][]*simos.File, len(p.Clients))}
	single := len(p.Clients) == 1
	w, res := world(p, tape, fs, opt, nil, func() {
		st.c = filecache.New(p.x("cap", 0))
		var wg simsync.WaitGroup
		for ti := range p.Clients {
			ti := ti
			wg.Add(1)
			simrt.Go(fmt.Sprintf("fc%d", ti), func() {
				defer wg.Done()
				st.task(ti, p.Clients[ti], single)
			})
		}
		wg.Wait()
		if st.viol != nil {
			return
		}
		st.checkInvariants("after all tasks finished")
		if st.viol != nil {
			return
		}
		// release everything: afterwards only cached files may be open, and
		// after Clear none
		for ti := range st.held {
			for len(st.held[ti]) > 0 {
				f := st.held[ti][0]
				st.held[ti] = st.held[ti][1:]
				if err := st.c.Close(f); err != nil {
					st.fail("fcache/close-error", "final Close(%s) returned %v", f.Name(), err)
					return
				}
				st.checkInvariants("during final release")
				if st.viol != nil {
					return
				}
			}
		}
		st.c.Clear()
		st.checkInvariants("after final Clear")
		if st.viol == nil {
			if hs := fsOf().OpenHandleInfo(); len(hs) > 0 {
				st.fail("fcache/leaked-handle", "after releasing everything and Clear, handles are still open: %s", strings.Join(hs, "; "))
			}
		}
	})
	out.addFS(fs)
	out.FinalFS = fs
	if len(p.Clients) > 1 {
		out.Probes["concurrent"]++
	}
	out.Probes["fc-evictions"] += fs.Counts[simos.OpClose]
	finish(out, w, res, p, st.viol, opt)
	out.Sample = fmt.Sprintf("cap=%d names=%d tasks=%s", p.x("cap", 0), p.x("names", 1), clientsString(p.Clients))
	return out
}
