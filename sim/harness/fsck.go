package harness

import (
	"bytes"
	"encoding/binary"
	"encoding/json"
	"fmt"
	"sort"
)

// fsck: an independent reader of the store's file formats that checks the C07
// invariant literally. Nothing here calls into the store's own parsers; the
// formats are re-implemented from DESIGN.md Appendix D.

const delBit = uint32(1) << 31

type idxHeader struct {
	Version         int
	BucketsBits     uint8
	MaxFileSize     uint32
	FirstFile       uint32
	PrimaryFileSize uint32
}

type priHeader struct {
	Version     int
	MaxFileSize uint32
	FirstFile   uint32
}

// FsckEntry is one index entry.
type FsckEntry struct {
	Prefix []byte
	Off    uint64
	Size   uint32
}

// FsckResult is what fsck reconstructs and reports.
type FsckResult struct {
	Errs     []string
	Content  map[string]mval   // digest -> stored key, value
	Buckets  map[uint32]uint64 // bucket -> absolute position (non-empty only)
	Lists    map[uint32][]byte // bucket -> raw entries
	Bits     uint8
	IFirst   uint32
	PFirst   uint32
	FreeList []FsckEntry // entries of .free and .free.gc
}

func (r *FsckResult) errf(format string, a ...any) {
	if len(r.Errs) < 20 {
		r.Errs = append(r.Errs, fmt.Sprintf(format, a...))
	}
}

type fsckInput struct {
	Files   map[string][]byte
	Primary string // "multihash" | "CID"
	// Live, if non-nil, is the bucket table to check (from the running store or
	// the snapshot file); otherwise the table is rebuilt by scanning the log.
	Live []uint64
}

func numberedFiles(files map[string][]byte, base string) map[uint32][]byte {
	out := map[uint32][]byte{}
	for name, data := range files {
		if len(name) > len(base)+1 && name[:len(base)+1] == base+"." {
			suf := name[len(base)+1:]
			n, ok := uint64(0), len(suf) > 0
			for _, c := range suf {
				if c < '0' || c > '9' {
					ok = false
					break
				}
				n = n*10 + uint64(c-'0')
			}
			if ok && n < 1<<32 {
				out[uint32(n)] = data
			}
		}
	}
	return out
}

// scanIndexLog rebuilds the bucket table the way a rescan would: files from
// first in order, newest complete non-deleted record per bucket wins.
func scanIndexLog(r *FsckResult, ifiles map[uint32][]byte, first uint32, maxSize uint32) map[uint32]uint64 {
	buckets := map[uint32]uint64{}
	for n := first; ; n++ {
		data, ok := ifiles[n]
		if !ok {
			break
		}
		pos := 0
		for pos+4 <= len(data) {
			size := binary.LittleEndian.Uint32(data[pos:])
			if size&delBit != 0 {
				pos += 4 + int(size^delBit)
				continue
			}
			if pos+4+int(size) > len(data) || size < 4 {
				break // torn tail
			}
			b := binary.LittleEndian.Uint32(data[pos+4:])
			buckets[b] = uint64(n)*uint64(maxSize) + uint64(pos+4)
			pos += 4 + int(size)
		}
	}
	return buckets
}

func parseEntries(raw []byte) ([]FsckEntry, bool) {
	var out []FsckEntry
	p := 0
	for p < len(raw) {
		if p+13 > len(raw) {
			return out, false
		}
		off := binary.LittleEndian.Uint64(raw[p:])
		sz := binary.LittleEndian.Uint32(raw[p+8:])
		kl := int(raw[p+12])
		if p+13+kl > len(raw) {
			return out, false
		}
		out = append(out, FsckEntry{Prefix: raw[p+13 : p+13+kl], Off: off, Size: sz})
		p += 13 + kl
	}
	return out, true
}

func parseFreeList(data []byte) []FsckEntry {
	var out []FsckEntry
	for p := 0; p+12 <= len(data); p += 12 {
		out = append(out, FsckEntry{Off: binary.LittleEndian.Uint64(data[p:]), Size: binary.LittleEndian.Uint32(data[p+8:])})
	}
	return out
}

// readVarint decodes an unsigned varint.
func readVarint(b []byte) (uint64, int) {
	var x uint64
	var s uint
	for i, c := range b {
		if i >= 10 {
			return 0, -1
		}
		if c < 0x80 {
			return x | uint64(c)<<s, i + 1
		}
		x |= uint64(c&0x7f) << s
		s += 7
	}
	return 0, -1
}

// splitMultihash returns the multihash bytes, its digest and the rest.
func splitMultihash(b []byte) (mh, digest, rest []byte, ok bool) {
	_, n1 := readVarint(b)
	if n1 <= 0 {
		return nil, nil, nil, false
	}
	l, n2 := readVarint(b[n1:])
	if n2 <= 0 || n1+n2+int(l) > len(b) {
		return nil, nil, nil, false
	}
	end := n1 + n2 + int(l)
	return b[:end], b[n1+n2 : end], b[end:], true
}

// splitCID returns the CID bytes, the digest of its multihash and the rest.
func splitCID(b []byte) (cid, digest, rest []byte, ok bool) {
	if len(b) >= 34 && b[0] == 0x12 && b[1] == 0x20 {
		return b[:34], b[2:34], b[34:], true // CIDv0
	}
	v, n1 := readVarint(b)
	if n1 <= 0 || v != 1 {
		return nil, nil, nil, false
	}
	_, n2 := readVarint(b[n1:])
	if n2 <= 0 {
		return nil, nil, nil, false
	}
	mh, dg, rest, ok := splitMultihash(b[n1+n2:])
	if !ok {
		return nil, nil, nil, false
	}
	return b[:n1+n2+len(mh)], dg, rest, true
}

// Fsck checks the C07 invariant on a set of files.
func Fsck(in fsckInput) *FsckResult {
	r := &FsckResult{Content: map[string]mval{}, Buckets: map[uint32]uint64{}, Lists: map[uint32][]byte{}}
	hb, ok := in.Files[indexPath+".info"]
	if !ok {
		// nothing was ever stored
		if len(numberedFiles(in.Files, indexPath)) > 0 {
			r.errf("index files exist without a header file")
		}
		return r
	}
	var ih idxHeader
	if err := json.Unmarshal(hb, &ih); err != nil {
		r.errf("index header unreadable: %v (%q)", err, hb)
		return r
	}
	r.Bits, r.IFirst = ih.BucketsBits, ih.FirstFile
	if ih.MaxFileSize == 0 || ih.BucketsBits < 8 || ih.BucketsBits > 31 {
		r.errf("index header has invalid fields: %+v", ih)
		return r
	}
	ifiles := numberedFiles(in.Files, indexPath)

	// primary
	var ph priHeader
	var pfiles map[uint32][]byte
	mhPrimary := in.Primary != "CID"
	if mhPrimary {
		pb, ok := in.Files[dataPath+".info"]
		if !ok {
			r.errf("primary header file missing")
			return r
		}
		if err := json.Unmarshal(pb, &ph); err != nil {
			r.errf("primary header unreadable: %v (%q)", err, pb)
			return r
		}
		if ph.MaxFileSize == 0 {
			r.errf("primary header has zero MaxFileSize")
			return r
		}
		r.PFirst = ph.FirstFile
		pfiles = numberedFiles(in.Files, dataPath)
	}

	// bucket table
	var table map[uint32]uint64
	if in.Live != nil {
		table = map[uint32]uint64{}
		if len(in.Live) != 1<<ih.BucketsBits {
			r.errf("bucket table has %d slots, header says %d bits", len(in.Live), ih.BucketsBits)
			return r
		}
		for b, p := range in.Live {
			if p != 0 {
				table[uint32(b)] = p
			}
		}
	} else {
		table = scanIndexLog(r, ifiles, ih.FirstFile, ih.MaxFileSize)
	}
	r.Buckets = table

	// freelist entries
	for _, name := range []string{indexPath + ".free", indexPath + ".free.gc"} {
		if d, ok := in.Files[name]; ok {
			r.FreeList = append(r.FreeList, parseFreeList(d)...)
		}
	}
	freed := map[[2]uint64]bool{}
	for _, e := range r.FreeList {
		freed[[2]uint64{e.Off, uint64(e.Size)}] = true
	}

	bks := make([]uint32, 0, len(table))
	for b := range table {
		bks = append(bks, b)
	}
	sort.Slice(bks, func(i, j int) bool { return bks[i] < bks[j] })
	minPFile := uint32(1<<32 - 1)
	prefixBytes := int(ih.BucketsBits / 8)
	for _, b := range bks {
		pos := table[b]
		if pos < 4 {
			r.errf("bucket %d: position %d is inside a size prefix", b, pos)
			continue
		}
		fnum := uint32((pos - 4) / uint64(ih.MaxFileSize))
		local := int64(pos) - int64(fnum)*int64(ih.MaxFileSize)
		if fnum < ih.FirstFile {
			r.errf("bucket %d points into index file %d, older than header FirstFile %d", b, fnum, ih.FirstFile)
		}
		data, ok := ifiles[fnum]
		if !ok {
			r.errf("bucket %d points into missing index file %d", b, fnum)
			continue
		}
		if local < 4 || int(local) > len(data) {
			r.errf("bucket %d: offset %d outside index file %d (len %d)", b, local, fnum, len(data))
			continue
		}
		size := binary.LittleEndian.Uint32(data[local-4:])
		if size&delBit != 0 {
			r.errf("bucket %d points at a deleted index record (file %d offset %d)", b, fnum, local)
			continue
		}
		if size < 4 || int(local)+int(size) > len(data) {
			r.errf("bucket %d points at an incomplete index record (file %d offset %d size %d, file len %d)", b, fnum, local, size, len(data))
			continue
		}
		tag := binary.LittleEndian.Uint32(data[local:])
		if tag != b {
			r.errf("bucket %d points at a record tagged with bucket %d", b, tag)
			continue
		}
		raw := data[int(local)+4 : int(local)+int(size)]
		r.Lists[b] = raw
		ents, ok := parseEntries(raw)
		if !ok {
			r.errf("bucket %d: record list does not parse", b)
			continue
		}
		locSeen := map[uint64]bool{}
		for i, e := range ents {
			if i > 0 {
				prev := ents[i-1].Prefix
				if bytes.Compare(prev, e.Prefix) >= 0 {
					r.errf("bucket %d: entries not sorted (%x then %x)", b, prev, e.Prefix)
				}
			}
			for j := 0; j < i; j++ {
				if bytes.HasPrefix(e.Prefix, ents[j].Prefix) || bytes.HasPrefix(ents[j].Prefix, e.Prefix) {
					r.errf("bucket %d: stored prefixes %x and %x are not prefix-free", b, ents[j].Prefix, e.Prefix)
				}
			}
			if locSeen[e.Off] {
				r.errf("bucket %d: two entries name location %d", b, e.Off)
			}
			locSeen[e.Off] = true
			if freed[[2]uint64{e.Off, uint64(e.Size)}] {
				r.errf("bucket %d: live entry %x names location %d which is on the freelist", b, e.Prefix, e.Off)
			}
			// primary record
			var rec []byte
			if mhPrimary {
				pf := uint32(e.Off / uint64(ph.MaxFileSize))
				pl := int64(e.Off) - int64(pf)*int64(ph.MaxFileSize)
				if pf < minPFile {
					minPFile = pf
				}
				pd, ok := pfiles[pf]
				if !ok {
					r.errf("bucket %d entry %x: primary file %d does not exist", b, e.Prefix, pf)
					continue
				}
				if int(pl)+4 > len(pd) {
					r.errf("bucket %d entry %x: location %d beyond end of primary file %d (len %d)", b, e.Prefix, pl, pf, len(pd))
					continue
				}
				ps := binary.LittleEndian.Uint32(pd[pl:])
				if ps&delBit != 0 {
					r.errf("bucket %d entry %x: primary record at file %d offset %d is marked deleted", b, e.Prefix, pf, pl)
					continue
				}
				if ps != e.Size {
					r.errf("bucket %d entry %x: primary record size %d differs from index size %d", b, e.Prefix, ps, e.Size)
					continue
				}
				if int(pl)+4+int(ps) > len(pd) {
					r.errf("bucket %d entry %x: primary record incomplete (file %d offset %d size %d, file len %d)", b, e.Prefix, pf, pl, ps, len(pd))
					continue
				}
				rec = pd[int(pl)+4 : int(pl)+4+int(ps)]
			} else {
				pd, ok := in.Files[dataPath]
				if !ok {
					r.errf("CID primary file missing")
					continue
				}
				if int(e.Off)+4 > len(pd) {
					r.errf("bucket %d entry %x: location %d beyond end of primary (len %d)", b, e.Prefix, e.Off, len(pd))
					continue
				}
				ps := binary.LittleEndian.Uint32(pd[e.Off:])
				if ps != e.Size {
					r.errf("bucket %d entry %x: primary record size %d differs from index size %d", b, e.Prefix, ps, e.Size)
					continue
				}
				if int(e.Off)+4+int(ps) > len(pd) {
					r.errf("bucket %d entry %x: primary record incomplete", b, e.Prefix)
					continue
				}
				rec = pd[int(e.Off)+4 : int(e.Off)+4+int(ps)]
			}
			var key, digest, val []byte
			var okk bool
			if mhPrimary {
				key, digest, val, okk = splitMultihash(rec)
			} else {
				key, digest, val, okk = splitCID(rec)
			}
			if !okk {
				r.errf("bucket %d entry %x: primary record key does not parse", b, e.Prefix)
				continue
			}
			if len(digest) < 4 || Bucket(digest, ih.BucketsBits) != b {
				r.errf("bucket %d entry %x: primary key digest %x does not carry the bucket bits", b, e.Prefix, digest)
				continue
			}
			if !bytes.HasPrefix(digest[prefixBytes:], e.Prefix) {
				r.errf("bucket %d: stored prefix %x is not a prefix of its key %x", b, e.Prefix, digest[prefixBytes:])
				continue
			}
			if _, dup := r.Content[string(digest)]; dup {
				r.errf("digest %x is reachable through two entries", digest)
			}
			r.Content[string(digest)] = mval{present: true, key: key, val: val}
		}
	}
	if mhPrimary && minPFile != 1<<32-1 && ph.FirstFile > minPFile {
		r.errf("primary header FirstFile %d exceeds oldest referenced primary file %d", ph.FirstFile, minPFile)
	}
	return r
}

// SnapshotTable parses a bucket snapshot file.
func SnapshotTable(data []byte) []uint64 {
	out := make([]uint64, len(data)/8)
	for i := range out {
		out[i] = binary.LittleEndian.Uint64(data[8*i:])
	}
	return out
}
