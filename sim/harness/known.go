package harness

import (
	"bufio"
	"fmt"
	"os"
	"path/filepath"
	"strings"

	logging "github.com/ipfs/go-log/v2"
)

// QuietLogs silences go-log output (error logs are expected on injected faults).
func QuietLogs() {
	logging.SetAllLoggers(logging.LevelFatal)
	cfg := logging.GetConfig()
	cfg.Stderr = false
	cfg.Stdout = false
	cfg.Level = logging.LevelFatal
	logging.SetupLogging(cfg)
}

// KnownFinding is one line of KNOWN_FINDINGS.txt.
//
//	finding: property=C03 id=KF-1 class=<violation class> steer=<rule[,rule]> witness=witnesses/KF-1.json :: what fails
//	fixed: property=C01 <commit> <what failed>
type KnownFinding struct {
	Fixed   bool
	Prop    string
	ID      string
	Class   string
	Steer   []string
	Witness string
	Text    string
}

// LoadKnownFindings parses the known-findings file (missing file: none).
func LoadKnownFindings(path string) []KnownFinding {
	f, err := os.Open(path)
	if err != nil {
		return nil
	}
	defer f.Close()
	var out []KnownFinding
	sc := bufio.NewScanner(f)
	sc.Buffer(make([]byte, 1<<16), 1<<22)
	for sc.Scan() {
		line := strings.TrimSpace(sc.Text())
		if line == "" || strings.HasPrefix(line, "#") {
			continue
		}
		var kf KnownFinding
		switch {
		case strings.HasPrefix(line, "fixed:"):
			kf.Fixed = true
			line = strings.TrimSpace(strings.TrimPrefix(line, "fixed:"))
		case strings.HasPrefix(line, "finding:"):
			line = strings.TrimSpace(strings.TrimPrefix(line, "finding:"))
		default:
			continue
		}
		head, text, _ := strings.Cut(line, "::")
		kf.Text = strings.TrimSpace(text)
		for _, tok := range strings.Fields(head) {
			k, v, ok := strings.Cut(tok, "=")
			if !ok {
				continue
			}
			switch k {
			case "property":
				kf.Prop = v
			case "id":
				kf.ID = v
			case "class":
				kf.Class = v
			case "steer":
				kf.Steer = strings.Split(v, ",")
			case "witness":
				kf.Witness = v
			}
		}
		if kf.Fixed && kf.Text == "" {
			kf.Text = head
		}
		out = append(out, kf)
	}
	return out
}

// WitnessStatus is the result of executing a finding's witness.
type WitnessStatus int

const (
	WitnessReproduced WitnessStatus = iota
	WitnessPassed
	WitnessUnusable
)

// RunWitness executes the committed witness of a finding without steering.
func RunWitness(dir string, f KnownFinding) (WitnessStatus, string) {
	if f.Witness == "" {
		return WitnessUnusable, "no witness recorded"
	}
	rf, err := LoadReplay(filepath.Join(dir, f.Witness))
	if err != nil {
		return WitnessUnusable, err.Error()
	}
	SetSteer(map[string]bool{})
	out := Replay(rf, false)
	if out.Viol != nil && (f.Class == "" || out.Viol.Class == f.Class) {
		return WitnessReproduced, fmt.Sprintf("KNOWN-FINDING: property=%s %s: %s [witness %s reproduces class %s]", f.Prop, f.ID, f.Text, f.Witness, out.Viol.Class)
	}
	if out.Viol != nil {
		// the witness now fails differently: that is not the recorded finding
		return WitnessPassed, ""
	}
	if out.Inconclusive != "" {
		return WitnessUnusable, "witness run inconclusive: " + out.Inconclusive
	}
	return WitnessPassed, ""
}
