package harness

import (
	"bytes"
	"context"
	"encoding/json"
	"errors"
	"fmt"
	"os"
	"strings"

	"github.com/ipld/go-storethehash/store/types"

	"verif/sim/simos"
	"verif/sim/simrt"
)

// E-seq: one driver task issues a generated history against the store; the map
// model is checked on every return value.

func init() {
	engines["seq"] = runSeq
	generators["C01"] = genC01
	generators["C07"] = genC07
	generators["C04"] = genC04
	generators["C02"] = genC02
}

// genC02: C01/C04 style histories with Close/reopen at arbitrary positions; at
// each reopen the closed image is opened three ways (snapshot kept / deleted /
// unusable).
func genC02(seed uint64, tier string) *Plan {
	r := simrt.NewRand(seed)
	var p *Plan
	if r.Chance(0.5) {
		p = genC04(seed^0x2222, tier)
	} else {
		p = genC01(seed^0x2222, tier)
		p.Cfg.GCMs = 0
	}
	if p.Cfg.Bits > 17 {
		p.Cfg.Bits = 12
	}
	p.X["forks"] = 1
	var out []Op
	nre := 0
	for _, o := range p.Ops {
		if o.K == "reopen" {
			continue
		}
		out = append(out, o)
		if nre < 6 && r.Chance(0.12) {
			nre++
			out = append(out, Op{K: "reopen", A: r.Intn(5), B: r.Intn(2)})
			if r.Chance(0.2) {
				// reopen immediately again
				out = append(out, Op{K: "reopen", A: r.Intn(5)})
			}
		}
	}
	out = append(out, Op{K: "reopen", A: r.Intn(5), B: 1})
	p.Ops = out
	return p
}

// genGCHeavy: few keys in distinct buckets rewritten over and over on tiny index
// and primary files, with a GC cycle of either kind and a flush (= fsck
// checkpoint) after almost every step, so that record spans are marked, merged,
// truncated and files unlinked many times within one history.
func genGCHeavy(seed uint64, tier string) *Plan {
	r := simrt.NewRand(seed)
	p := &Plan{Engine: "seq", X: map[string]int{"fsck": 1}}
	p.Cfg = StoreCfg{Primary: "multihash", Bits: 8, FileCache: []int{0, 1, 512}[r.Intn(3)]}
	p.Cfg.IndexFile = []uint32{32, 64, 90, 100, 128, 300}[r.Intn(6)]
	p.Cfg.PrimaryFile = []uint32{32, 64, 100, 300, 1024}[r.Intn(5)]
	p.Cfg.GCMs = 1000 * 3600 * 1000
	nk := 2 + r.Intn(4)
	p.Keys = GenKeys(r, nk, false)
	for i := range p.Keys {
		p.Keys[i].Digest[0] = byte(10 + i) // distinct buckets: one record list per key
	}
	vseq := 0
	n := 10 + r.Intn(40)
	for i := 0; i < n; i++ {
		vseq++
		op := Op{K: "put", Key: r.Intn(nk), VSeq: vseq, VLen: 4 + r.Intn(12)}
		if r.Chance(0.1) {
			op = Op{K: "remove", Key: r.Intn(nk)}
		}
		p.Ops = append(p.Ops, op)
		if r.Chance(0.7) {
			p.Ops = append(p.Ops, Op{K: "flush"})
		}
		if r.Chance(0.5) {
			if r.Chance(0.7) {
				p.Ops = append(p.Ops, Op{K: "igc", A: r.Intn(2)}, Op{K: "flush"})
			} else {
				p.Ops = append(p.Ops, Op{K: "pgc", A: []int{0, 50, 85, 101}[r.Intn(4)]}, Op{K: "flush"})
			}
		}
		if r.Chance(0.2) {
			p.Ops = append(p.Ops, Op{K: "get", Key: r.Intn(nk)})
		}
	}
	p.Sim = SimCfg{Strategy: simrt.Strategy{Kind: "sticky", Stick: 0.9}}
	return p
}

// genC04: histories on the multihash primary with small files and GC cycles of
// both kinds at arbitrary positions (with unflushed data, repeated, interrupted).
func genC04(seed uint64, tier string) *Plan {
	r := simrt.NewRand(seed)
	if r.Chance(0.2) {
		p := genGCHeavy(seed^0x40c4, tier)
		delete(p.X, "fsck")
		return p
	}
	p := &Plan{Engine: "seq", X: map[string]int{}}
	p.Cfg = genCfg(r, false)
	p.Cfg.Primary = "multihash"
	if r.Chance(0.1) {
		p.Cfg.Primary = "CID" // index GC only
	}
	if p.Cfg.Bits > 17 {
		p.Cfg.Bits = 8
	}
	// small limits so that superseded records land in non-current files
	small := []uint32{16, 32, 64, 100, 300, 1024}
	if r.Chance(0.8) {
		p.Cfg.PrimaryFile = small[r.Intn(len(small))]
	}
	if r.Chance(0.8) {
		p.Cfg.IndexFile = small[r.Intn(len(small))]
	}
	p.Cfg.GCMs = 1000 * 3600 * 1000
	nk := 1 + r.Intn(10)
	p.Keys = GenKeys(r, nk, p.Cfg.ShortKeys)
	mix := opMix{put: 40, get: 15, has: 3, size: 3, remove: 15, flush: 12, iter: 4, reput: 3}
	n := 5 + r.Intn(50)
	vseq := 0
	ops := genSeqOps(r, n, nk, mix, false, &vseq)
	var out []Op
	ngc := 0
	pGC := 0.1 + 0.25*r.Float()
	for _, o := range ops {
		out = append(out, o)
		if ngc < 15 && r.Chance(pGC) {
			ngc++
			if r.Chance(0.45) {
				g := Op{K: "igc", A: r.Intn(2)}
				if r.Chance(0.2) {
					g.B = 1 + r.Intn(12)
				}
				out = append(out, g)
			} else {
				g := Op{K: "pgc", A: []int{0, 1, 50, 74, 85, 100, 101}[r.Intn(7)]}
				if r.Chance(0.2) {
					g.B = 1 + r.Intn(12)
				}
				out = append(out, g)
			}
			if r.Chance(0.3) {
				out = append(out, Op{K: "flush"})
			}
		}
	}
	if r.Chance(0.5) {
		out = append(out, Op{K: "reopen", A: r.Intn(2)})
	}
	p.Ops = out
	p.Sim = SimCfg{Strategy: simrt.Strategy{Kind: "sticky", Stick: 0.9}}
	return p
}

// genC07 mixes the histories of the other engines with the fsck oracle on:
// sequential histories (with GC cycles and reopen), crash recoveries and
// concurrent runs; only fsck failures are reported under C07.
func genC07(seed uint64, tier string) *Plan {
	r0 := simrt.NewRand(seed ^ 0x7007)
	switch r0.Weighted([]int{30, 20, 15, 15, 20}) {
	case 4:
		return genGCHeavy(seed^0x71c4, tier)
	case 1:
		p := genC04(seed^0x7104, tier)
		p.X["fsck"] = 1
		return p
	case 2:
		p := genC03(seed^0x7103, tier)
		p.X["sample"] = 8
		return p
	case 3:
		p := genC06(seed^0x7106, tier)
		p.X["fsck"] = 1
		return p
	}
	p := genC01(seed, tier)
	p.X["fsck"] = 1
	// more flushes: each one is a checkpoint
	r := simrt.NewRand(seed ^ 0xc07)
	var ops []Op
	for _, o := range p.Ops {
		ops = append(ops, o)
		if r.Chance(0.15) {
			ops = append(ops, Op{K: "flush"})
		}
	}
	p.Ops = ops
	return p
}

func planHash(p *Plan) uint64 {
	b, _ := json.Marshal(struct {
		C StoreCfg
		K []KeySpec
		O []Op
		L [][]Op
		X map[string]int
	}{p.Cfg, p.Keys, p.Ops, p.Clients, p.X})
	h := uint64(14695981039346656037)
	for _, c := range b {
		h = (h ^ uint64(c)) * 1099511628211
	}
	return h
}

func genC01(seed uint64, tier string) *Plan {
	r := simrt.NewRand(seed)
	p := &Plan{Engine: "seq", X: map[string]int{}}
	p.Cfg = genCfg(r, tier == "thorough")
	p.Cfg.GCMs = 0
	if r.Chance(0.1) {
		// the flusher with a long interval must be inert
		p.Cfg.Flusher = true
		p.Cfg.SyncMs = 3600 * 1000
	}
	nk := 1 + r.Intn(12)
	p.Keys = GenKeys(r, nk, p.Cfg.ShortKeys)
	mix := opMix{put: 35, get: 20, has: 5, size: 5, remove: 15, flush: 10, iter: 5, reput: 5}
	// swarm: randomly mute some op kinds
	if r.Chance(0.2) {
		mix.remove = 0
	}
	if r.Chance(0.15) {
		mix.flush = 0
	}
	if r.Chance(0.15) {
		mix.flush = 40
	}
	if r.Chance(0.2) {
		mix.iter = 0
	}
	n := 5 + r.Intn(56)
	vseq := 0
	p.Ops = genSeqOps(r, n, nk, mix, p.Cfg.Primary == "CID", &vseq)
	p.Sim = SimCfg{Strategy: simrt.Strategy{Kind: "sticky", Stick: 0.9}}
	return p
}

// Exec runs one plan op in sequential-oracle mode.
func (d *Driver) Exec(op *Op) {
	switch op.K {
	case "put", "reput", "remove":
		d.noteBefore(op)
		before, had := d.ledgerBefore(op)
		r := d.Call(op)
		d.CheckSeq(op, r)
		d.ledgerAfter(op, before, had, r)
	case "get", "has", "size", "iter":
		r := d.Call(op)
		d.CheckSeq(op, r)
		if op.K == "iter" && r.Err == "" {
			d.CheckLedger("after iteration (which flushes)")
		}
	case "flush":
		var start *Model
		if d.Adm != nil {
			start = d.Model.Clone()
		}
		r := d.Call(op)
		d.CheckSeq(op, r)
		if r.Err == "" {
			d.noteFlushed(start)
			if d.FsckOn && d.Viol == nil {
				d.RunFsck("after Flush", false)
			}
			d.CheckLedger("after Flush")
		}
	case "reopen":
		d.Reopen(op)
	case "igc":
		d.IndexGC(op)
	case "pgc":
		d.PrimaryGC(op)
	case "sleep":
		simrt.Sleep(int64(op.A) * 1000)
	case "sizes":
		d.St.StorageSize()
		d.St.IndexStorageSize()
		d.St.PrimaryStorageSize()
		d.St.FreelistStorageSize()
	default:
		panic("Exec: unknown op " + op.K)
	}
}

// CloseStore closes the store; an error is a violation.
func (d *Driver) CloseStore(class string) bool {
	if d.St == nil {
		return true
	}
	var start *Model
	if d.Adm != nil {
		start = d.Model.Clone()
	}
	if err := d.St.Close(); err != nil {
		d.fail(class+"/close-error", "Close returned %v", err)
		return false
	}
	d.noteFlushed(start)
	if d.FsckOn && d.Viol == nil {
		d.RunFsck("after Close", true)
		if d.Viol != nil {
			return false
		}
	}
	return true
}

// fsOf returns the world's file system (harness-side direct access).
func fsOf() *simos.FS {
	return simrt.Current().FS.(*simos.FS)
}

// Reopen closes and reopens the store. op.A selects what happens to the bucket
// snapshot in between: 0 kept, 1 deleted, 2 truncated, 3 one extra byte, 4 zero
// length. op.B=1 calls Close twice.
func (d *Driver) Reopen(op *Op) {
	if !d.CloseStore("reopen") {
		return
	}
	if op.B == 1 {
		before := fsOf().Snapshot().Hash()
		if err := d.St.Close(); err != nil {
			d.fail("reopen/second-close-error", "second Close returned %v", err)
			return
		}
		if fsOf().Snapshot().Hash() != before {
			d.fail("reopen/second-close-writes", "second Close changed files")
			return
		}
	}
	if d.P.x("forks", 0) == 1 {
		d.reopenForks()
		if d.Viol != nil {
			return
		}
	}
	d.damageSnapshot(op.A)
	if err := d.Open(); err != nil {
		d.fail("reopen/open-error", "reopen (snapshot mode %d) failed: %v", op.A, err)
		return
	}
	d.Probes["reopen"]++
	d.CheckLedger("after clean restart")
	d.CheckLeaks("after clean restart")
}

// reopenForks opens the closed store three ways (snapshot kept / deleted /
// unusable) from the same image and demands identical contents and equivalent
// bucket tables. The file system is restored to the image afterwards.
func (d *Driver) reopenForks() {
	fs := fsOf()
	img := fs.Snapshot()
	var ref map[uint32][]byte
	refMode := -1
	modes := []int{0, 1, 2 + int(img.Hash()%3)}
	for _, mode := range modes {
		fs.Restore(img)
		d.damageSnapshot(mode)
		if err := d.Open(); err != nil {
			d.fail("reopen/fork-open-error", "reopen with snapshot mode %d failed: %v", mode, err)
			return
		}
		d.ReadBack(fmt.Sprintf("reopen/fork%d", mode))
		if d.Viol != nil {
			return
		}
		r := d.Call(&Op{K: "iter"})
		d.CheckSeq(&Op{K: "iter"}, r)
		if d.Viol != nil {
			d.Viol.Class = fmt.Sprintf("reopen/fork%d/", mode) + d.Viol.Class
			return
		}
		tb := d.St.Index().VerifBuckets()
		live := make([]uint64, len(tb))
		for i, p := range tb {
			live[i] = uint64(p)
		}
		lv := Fsck(fsckInput{Files: fs.Files(), Primary: d.Cfg.Primary, Live: live})
		if len(lv.Errs) > 0 {
			d.fail("reopen/fork-table", "bucket table after reopen with snapshot mode %d is inconsistent: %s", mode, strings.Join(lv.Errs, "; "))
			return
		}
		lists := map[uint32][]byte{}
		for b, raw := range lv.Lists {
			if len(raw) > 0 {
				lists[b] = append([]byte(nil), raw...)
			}
		}
		if ref == nil {
			ref, refMode = lists, mode
		} else {
			if len(lists) != len(ref) {
				d.fail("reopen/forks-differ", "snapshot modes %d and %d reconstruct different bucket tables (%d vs %d non-empty buckets)", refMode, mode, len(ref), len(lists))
				return
			}
			for b, raw := range lists {
				if !bytes.Equal(ref[b], raw) {
					d.fail("reopen/forks-differ", "snapshot modes %d and %d resolve bucket %d to different record lists", refMode, mode, b)
					return
				}
			}
		}
		if err := d.St.Close(); err != nil {
			d.fail("reopen/fork-close-error", "Close after fork reopen returned %v", err)
			return
		}
		d.Probes["reopen-fork"]++
	}
	fs.Restore(img)
}

func (d *Driver) damageSnapshot(mode int) {
	fs := fsOf()
	name := indexPath + ".buckets"
	data, ok := fs.ReadFileDirect(name)
	if !ok {
		return
	}
	switch mode {
	case 1:
		fs.RemoveDirect(name)
		d.Probes["snapshot-deleted"]++
	case 2:
		if len(data) > 0 {
			fs.WriteFileDirect(name, data[:len(data)-1-len(data)/3])
			d.Probes["snapshot-truncated"]++
		}
	case 3:
		fs.WriteFileDirect(name, append(append([]byte(nil), data...), 0))
		d.Probes["snapshot-extra-byte"]++
	case 4:
		fs.WriteFileDirect(name, nil)
		d.Probes["snapshot-zero"]++
	}
}

func gcErrOK(err error) bool {
	return err == nil || errors.Is(err, context.DeadlineExceeded)
}

// IndexGC runs one index GC cycle. op.A&1: scan for free files; op.B>0: stop
// after that many context checks.
func (d *Driver) IndexGC(op *Op) {
	var ctx context.Context = context.Background()
	var cd *countdownCtx
	if op.B > 0 {
		cd = newCountdown(op.B)
		ctx = cd
	}
	_, _, err := d.St.Index().VerifGC(ctx, op.A&1 == 1)
	if !gcErrOK(err) {
		d.cprobe("index-gc-error")
		if os.Getenv("VERIF_DEBUG_GCERR") != "" {
			fmt.Fprintln(os.Stderr, "IGCERR:", err)
		}
		if d.GCErrFatal {
			d.fail("gc/index-gc-error", "index GC cycle failed: %v", err)
		}
		return
	}
	d.cprobe("index-gc")
	if cd != nil && cd.hit {
		d.cprobe("index-gc-interrupted")
	}
}

// PrimaryGC runs one primary GC cycle. op.A: low-use percent; op.B>0: stop
// after that many context checks.
func (d *Driver) PrimaryGC(op *Op) {
	mp := d.mhPrimary()
	if mp == nil {
		return
	}
	var ctx context.Context = context.Background()
	var cd *countdownCtx
	if op.B > 0 {
		cd = newCountdown(op.B)
		ctx = cd
	}
	var locsBefore map[string]types.Block
	if d.Ledger != nil && !d.Ledger.concurrent {
		locsBefore = d.allLocs()
		defer func() { d.ledgerGC(locsBefore) }()
	}
	_, err := mp.GC(ctx, int64(op.A))
	if !gcErrOK(err) {
		d.cprobe("primary-gc-error")
		if os.Getenv("VERIF_DEBUG_GCERR") != "" {
			fmt.Fprintln(os.Stderr, "PGCERR:", err)
		}
		if d.GCErrFatal {
			d.fail("gc/primary-gc-error", "primary GC cycle failed: %v", err)
		}
		return
	}
	d.cprobe("primary-gc")
	if cd != nil && cd.hit {
		d.cprobe("primary-gc-interrupted")
	} else if err == nil && d.Ledger != nil && !d.Ledger.concurrent {
		d.checkBatchesApplied("after a complete primary GC cycle")
	}
}

// staticProbes records plan-level facts used by the non-triviality rules.
func (d *Driver) staticProbes() {
	seen := map[uint32]int{}
	for _, k := range d.P.Keys {
		seen[Bucket(k.Digest, d.Cfg.Bits)]++
	}
	for _, n := range seen {
		if n > 1 {
			d.Probes["bucket-shared"] = 1
		}
	}
	for _, op := range d.P.Ops {
		if op.K == "put" && op.VLen == 0 {
			d.Probes["empty-value"] = 1
		}
		if op.K == "put" && op.VLen > 65536 {
			d.Probes["big-value"] = 1
		}
	}
}

// fileProbes looks at the final directory listing.
func (d *Driver) fileProbes(fs *simos.FS) {
	ni, np := 0, 0
	for _, f := range fs.List() {
		if strings.HasPrefix(f, indexPath+".") && isNumSuffix(f) {
			ni++
		}
		if strings.HasPrefix(f, dataPath+".") && isNumSuffix(f) {
			np++
		}
	}
	if ni > 1 {
		d.Probes["index-rolled"] = 1
	}
	if np > 1 {
		d.Probes["primary-rolled"] = 1
	}
}

func isNumSuffix(f string) bool {
	i := strings.LastIndex(f, ".")
	if i < 0 || i == len(f)-1 {
		return false
	}
	for _, c := range f[i+1:] {
		if c < '0' || c > '9' {
			return false
		}
	}
	return true
}

func runSeq(p *Plan, tape *simrt.Tape, opt RunOpt) *RunOut {
	out := newOut()
	fs := newStoreFS()
	d := NewDriver(p)
	d.staticProbes()
	d.FsckOn = p.x("fsck", 0) == 1
	if p.x("ledger", 0) == 1 {
		d.Ledger = newLedger()
		d.Ledger.pmax = uint64(p.Cfg.PrimaryFile)
		d.Ledger.installHook(fs)
	}
	w, res := world(p, tape, fs, opt, nil, func() {
		if err := d.Open(); err != nil {
			d.fail("open-error", "OpenStore failed: %v", err)
			return
		}
		for i := range p.Ops {
			d.OpIdx = i
			d.Exec(&p.Ops[i])
			if d.Viol != nil {
				return
			}
		}
		d.OpIdx = len(p.Ops)
		d.ReadBack("final")
		if d.Viol != nil {
			return
		}
		r := d.Call(&Op{K: "iter"})
		d.CheckSeq(&Op{K: "iter"}, r)
		if d.Viol != nil {
			return
		}
		d.CloseStore("final")
	})
	d.fileProbes(fs)
	out.addFS(fs)
	out.FinalFS = fs
	out.addDriver(d)
	viol := d.Viol
	if only := onlyClass(p); only != "" && viol != nil && !strings.HasPrefix(viol.Class, only) {
		// another property's oracle failed first; this check reports only its own
		out.Probes["other-oracle-failed"]++
		viol = nil
	}
	finish(out, w, res, p, viol, opt)
	if only := onlyClass(p); only != "" && out.Viol != nil && !strings.HasPrefix(out.Viol.Class, only) {
		out.Probes["other-oracle-failed"]++
		out.Viol = nil
	}
	out.Sample = fmt.Sprintf("cfg=%+v keys=%d ops=%v", p.Cfg, len(p.Keys), opsString(p.Ops, 12))
	return out
}

// onlyClass returns the violation-class prefix a property's check reports
// (empty: everything the engine finds).
func onlyClass(p *Plan) string {
	switch p.Prop {
	case "C07":
		return "fsck"
	case "C13":
		return "ledger"
	}
	return ""
}

func opsString(ops []Op, max int) string {
	var parts []string
	for i, o := range ops {
		if i >= max {
			parts = append(parts, fmt.Sprintf("...(%d more)", len(ops)-max))
			break
		}
		parts = append(parts, o.String())
	}
	return strings.Join(parts, " ")
}
