package harness

import (
	"encoding/binary"
	"encoding/json"
	"fmt"
	"os"
	"path/filepath"
	"sort"
	"time"

	"verif/sim/simrt"
)

// PropSpec is the static description of a property's check.
type PropSpec struct {
	ID          string
	Level       string // MANIFEST / evidence level category
	Technique   string
	Rule        string               // how cases are generated and what makes one non-trivial
	Nontrivial  func(o *RunOut) bool // measured per run
	Assumptions []string
	Quick       int // default wall-clock budget (s) after build
	Thorough    int
	Real        []string
	Simulated   []string
}

// Props is the registry of claimed properties.
var Props = map[string]*PropSpec{}

var commonReal = []string{
	"all go-storethehash packages (store, index incl. GC and upgrade, multihash and CID primaries incl. GC and upgrade, freelist, filecache, blockstore adapter) rebuilt from /repo's working tree",
	"go-cid, go-multihash, go-block-format, go-ipld-format, go-log",
}
var commonSim = []string{
	"package os (in-memory disk with crash/torn/latency/error faults)", "package sync (scheduler-backed locks)",
	"package time (virtual clock, timers, tickers)", "package context (virtual deadlines)",
	"goroutine scheduling, channel blocking and select choice (channels themselves are real)", "map iteration order",
}

// SeedFor derives the j-th seed of a property from the base seed.
func SeedFor(base uint64, prop string, j int) uint64 {
	h := uint64(14695981039346656037)
	for i := 0; i < len(prop); i++ {
		h = (h ^ uint64(prop[i])) * 1099511628211
	}
	return simrt.SplitMix(simrt.SplitMix(base)+h) + uint64(j)
}

// ViolationReport is a confirmed, minimised violation.
type ViolationReport struct {
	Prop    string `json:"prop"`
	Seed    uint64 `json:"seed"`
	Class   string `json:"class"`
	Msg     string `json:"msg"`
	Replay  string `json:"replay"`
	Shrunk  int    `json:"shrink_runs"`
	Finding string `json:"finding,omitempty"` // id of the known finding it matches
}

// WorkerReport is what one worker process returns.
type WorkerReport struct {
	Runs         int               `json:"runs"`
	Worlds       int               `json:"worlds"`
	Steps        int64             `json:"steps"`
	SimTimeNs    int64             `json:"sim_time_ns"`
	Switches     int64             `json:"switches"`
	Nontrivial   int               `json:"nontrivial"`
	Probes       map[string]int    `json:"probes"`
	Faults       map[string]int    `json:"faults"`
	FsOps        map[string]int    `json:"fs_ops"`
	Outcomes     map[string]int    `json:"outcomes"`
	Inconclusive map[string]int    `json:"inconclusive"`
	Violations   []ViolationReport `json:"violations"`
	Samples      []any             `json:"samples"`
	InfraError   string            `json:"infra_error,omitempty"`
	FirstSeed    uint64            `json:"first_seed"`
	LastSeed     uint64            `json:"last_seed"`
	WallS        float64           `json:"wall_s"`
	SlowestSeed  uint64            `json:"slowest_seed"`
	SlowestS     float64           `json:"slowest_s"`
	slowest      time.Duration
}

// ReplayFile is the on-disk form of a reproducible execution.
type ReplayFile struct {
	Property  string     `json:"property"`
	Seed      uint64     `json:"seed"`
	Tier      string     `json:"tier"`
	Plan      *Plan      `json:"plan"`
	Tape      []uint32   `json:"tape"`
	Violation *Violation `json:"violation,omitempty"`
	Trace     []string   `json:"trace,omitempty"`
	Note      string     `json:"note,omitempty"`
}

// WorkerArgs configure a worker.
type WorkerArgs struct {
	Prop      string
	Tier      string
	Base      uint64
	Idx, N    int
	BudgetS   float64
	MaxRuns   int
	Scratch   string // directory for hash files
	ReplayDir string
	Steer     map[string]bool // steering rules in force
}

type hashSet struct {
	m map[uint64]struct{}
}

func (h *hashSet) add(x uint64) {
	if h.m == nil {
		h.m = map[uint64]struct{}{}
	}
	h.m[x] = struct{}{}
}

func (h *hashSet) write(path string) error {
	ks := make([]uint64, 0, len(h.m))
	for k := range h.m {
		ks = append(ks, k)
	}
	sort.Slice(ks, func(i, j int) bool { return ks[i] < ks[j] })
	buf := make([]byte, 8*len(ks))
	for i, k := range ks {
		binary.LittleEndian.PutUint64(buf[8*i:], k)
	}
	return os.WriteFile(path, buf, 0o644)
}

// ReadHashFile loads a hash set written by a worker.
func ReadHashFile(path string, into map[uint64]struct{}) {
	b, err := os.ReadFile(path)
	if err != nil {
		return
	}
	for i := 0; i+8 <= len(b); i += 8 {
		into[binary.LittleEndian.Uint64(b[i:])] = struct{}{}
	}
}

// activeSteer holds the steering rules in force in this process.
var activeSteer = map[string]bool{}

// Steering reports whether a known-finding steering rule is in force.
func Steering(rule string, p *Plan) bool {
	if !activeSteer[rule] {
		return false
	}
	for _, n := range p.NoSteer {
		if n == rule {
			return false
		}
	}
	return true
}

// SetSteer installs the steering rules for this process.
func SetSteer(rules map[string]bool) { activeSteer = rules }

// RunWorker executes the worker's slice of seeds until the budget is spent.
func RunWorker(a WorkerArgs) *WorkerReport {
	spec := Props[a.Prop]
	rep := &WorkerReport{Probes: map[string]int{}, Faults: map[string]int{}, FsOps: map[string]int{},
		Outcomes: map[string]int{}, Inconclusive: map[string]int{}}
	if spec == nil {
		rep.InfraError = "unknown property " + a.Prop
		return rep
	}
	SetSteer(a.Steer)
	start := time.Now()
	deadline := start.Add(time.Duration(a.BudgetS * float64(time.Second)))
	var nontriv, sched, states hashSet
	opt := RunOpt{Tier: a.Tier}
	classesSeen := map[string]bool{}
	for j := a.Idx; ; j += a.N {
		if a.MaxRuns > 0 && rep.Runs >= a.MaxRuns {
			break
		}
		if rep.Runs > 0 && time.Now().After(deadline) {
			break
		}
		seed := SeedFor(a.Base, a.Prop, j)
		if rep.Runs == 0 {
			rep.FirstSeed = seed
		}
		rep.LastSeed = seed
		if os.Getenv("VERIF_DEBUG") != "" {
			fmt.Fprintf(os.Stderr, "worker %d: j=%d seed=%d\n", a.Idx, j, seed)
		}
		runStart := time.Now()
		wdLimit := 240 * time.Second
		if a.Tier == "thorough" {
			wdLimit = 1200 * time.Second // histories whose every crash point is booted
		}
		watchdog := time.AfterFunc(wdLimit, func() {
			fmt.Fprintf(os.Stderr, "INFRA: worker %d: run j=%d seed=%d of %s has been executing for %v of real time\n", a.Idx, j, seed, a.Prop, wdLimit)
			os.Exit(2)
		})
		plan := Generate(a.Prop, seed, a.Tier)
		tape := simrt.NewTape(seed ^ 0x5bd1e995)
		out := Execute(plan, tape, opt)
		watchdog.Stop()
		if d := time.Since(runStart); d > rep.slowest {
			rep.slowest = d
			rep.SlowestSeed = seed
			rep.SlowestS = d.Seconds()
		}
		rep.Runs++
		rep.Worlds += out.Worlds
		rep.Steps += int64(out.Steps)
		rep.SimTimeNs += out.SimTime
		rep.Switches += int64(out.Switches)
		rep.Outcomes[out.Outcome]++
		for k, v := range out.Probes {
			rep.Probes[k] += v
		}
		for k, v := range out.Faults {
			rep.Faults[k] += v
		}
		for k, v := range out.FsOps {
			rep.FsOps[k] += v
		}
		if out.Inconclusive != "" {
			rep.Inconclusive[out.Inconclusive]++
		}
		ph := planHash(plan)
		sched.add(ph ^ out.SchedHash)
		for _, s := range out.States {
			states.add(s)
		}
		if spec.Nontrivial == nil || spec.Nontrivial(out) {
			nontriv.add(ph*31 ^ out.SchedHash)
		}
		if len(rep.Samples) < 3 && out.Sample != nil && (spec.Nontrivial == nil || spec.Nontrivial(out)) {
			rep.Samples = append(rep.Samples, map[string]any{"seed": seed, "case": out.Sample, "outcome": out.Outcome, "steps": out.Steps})
		}
		if out.Viol != nil {
			if classesSeen[out.Viol.Class] {
				continue
			}
			classesSeen[out.Viol.Class] = true
			vr, infra := confirmAndShrink(plan, out, seed, a, opt)
			if infra != "" {
				rep.InfraError = infra
				break
			}
			rep.Violations = append(rep.Violations, *vr)
			if len(rep.Violations) >= 2 {
				break
			}
		}
	}
	rep.Nontrivial = len(nontriv.m)
	if a.Scratch != "" {
		nontriv.write(filepath.Join(a.Scratch, fmt.Sprintf("nontriv-%d.bin", a.Idx)))
		sched.write(filepath.Join(a.Scratch, fmt.Sprintf("sched-%d.bin", a.Idx)))
		states.write(filepath.Join(a.Scratch, fmt.Sprintf("states-%d.bin", a.Idx)))
	}
	rep.WallS = time.Since(start).Seconds()
	return rep
}

func confirmAndShrink(plan *Plan, out *RunOut, seed uint64, a WorkerArgs, opt RunOpt) (*ViolationReport, string) {
	class := out.Viol.Class
	if out.Pinned != nil {
		plan = out.Pinned
	}
	if class == "race/data-race" {
		// ThreadSanitizer reports each racing pair once per process, so the
		// violation cannot be re-observed (or shrunk) here; the parent replays
		// the file in a fresh process.
		rf := &ReplayFile{Property: a.Prop, Seed: seed, Tier: a.Tier, Plan: plan, Tape: out.Tape, Violation: out.Viol,
			Note: "race reports are de-duplicated per process: replay in a fresh process (bin/verif replay)"}
		path := filepath.Join(a.ReplayDir, fmt.Sprintf("%s-%d.json", a.Prop, seed))
		if err := WriteReplay(path, rf); err != nil {
			return nil, "cannot write replay file: " + err.Error()
		}
		return &ViolationReport{Prop: a.Prop, Seed: seed, Class: class, Msg: out.Viol.Msg, Replay: path}, ""
	}
	// determinism: the recorded tape must reproduce the same violation class
	re := Execute(plan.Clone(), simrt.ReplayTape(out.Tape), opt)
	if re.Viol == nil || re.Viol.Class != class {
		got := "no violation"
		if re.Viol != nil {
			got = re.Viol.Class
		}
		return nil, fmt.Sprintf("replay of seed %d did not reproduce violation class %q (got %s): simulator determinism bug", seed, class, got)
	}
	sp, st, runs := Shrink(plan.Clone(), trimZeros(out.Tape), class, opt, 400, 25*time.Second)
	final := Execute(sp.Clone(), simrt.ReplayTape(st), RunOpt{Trace: true, Tier: opt.Tier})
	if final.Viol == nil || final.Viol.Class != class {
		// fall back to the unshrunk case
		sp, st = plan, out.Tape
		final = Execute(sp.Clone(), simrt.ReplayTape(st), RunOpt{Trace: true, Tier: opt.Tier})
		if final.Viol == nil {
			return nil, fmt.Sprintf("seed %d: violation vanished on traced replay", seed)
		}
	}
	rf := &ReplayFile{Property: a.Prop, Seed: seed, Tier: a.Tier, Plan: sp, Tape: final.Tape, Violation: final.Viol, Trace: final.Trace}
	path := filepath.Join(a.ReplayDir, fmt.Sprintf("%s-%d.json", a.Prop, seed))
	if err := WriteReplay(path, rf); err != nil {
		return nil, "cannot write replay file: " + err.Error()
	}
	return &ViolationReport{Prop: a.Prop, Seed: seed, Class: final.Viol.Class, Msg: final.Viol.Msg, Replay: path, Shrunk: runs}, ""
}

// WriteReplay stores a replay file.
func WriteReplay(path string, rf *ReplayFile) error {
	if err := os.MkdirAll(filepath.Dir(path), 0o755); err != nil {
		return err
	}
	b, err := json.MarshalIndent(rf, "", " ")
	if err != nil {
		return err
	}
	return os.WriteFile(path, b, 0o644)
}

// LoadReplay reads a replay file.
func LoadReplay(path string) (*ReplayFile, error) {
	b, err := os.ReadFile(path)
	if err != nil {
		return nil, err
	}
	var rf ReplayFile
	if err := json.Unmarshal(b, &rf); err != nil {
		return nil, err
	}
	if rf.Plan == nil {
		return nil, fmt.Errorf("%s: no plan", path)
	}
	return &rf, nil
}

// Replay executes a replay file and returns the outcome.
func Replay(rf *ReplayFile, trace bool) *RunOut {
	return Execute(rf.Plan.Clone(), simrt.ReplayTape(rf.Tape), RunOpt{Trace: trace, Tier: rf.Tier})
}
