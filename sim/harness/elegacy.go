package harness

import (
	"bytes"
	"encoding/binary"
	"fmt"
	"sort"
	"strings"

	"verif/sim/simos"
	"verif/sim/simrt"
)

// C10: legacy single-file stores upgrade with identical contents and can
// resume. The harness writes the legacy files itself from a generated model.

func init() {
	engines["legacy"] = runLegacy
	generators["C10"] = genC10
}

func genC10(seed uint64, tier string) *Plan {
	r := simrt.NewRand(seed)
	p := &Plan{Engine: "legacy", X: map[string]int{}}
	p.Cfg = StoreCfg{Primary: "multihash", Bits: []uint8{8, 8, 9, 12, 16}[r.Intn(5)], FileCache: []int{0, 1, 512}[r.Intn(3)]}
	p.Cfg.PrimaryFile = []uint32{16, 32, 64, 100, 300, 1024, 65536, 1 << 30}[r.Intn(8)]
	p.Cfg.IndexFile = []uint32{16, 32, 64, 100, 300, 1024, 65536, 1 << 30}[r.Intn(8)]
	p.Cfg.GCMs = 0
	nk := 1 + r.Intn(9)
	p.Keys = GenKeys(r, nk, false)
	p.X["oldbits"] = int(p.Cfg.Bits)
	if r.Chance(0.25) {
		// upgrade + translate
		p.X["oldbits"] = int([]uint8{8, 9, 12, 16}[r.Intn(4)])
	}
	// the legacy history: puts and removes; dead records are marked directly,
	// left on the legacy freelist, or both
	n := 2 + r.Intn(25)
	vseq := 0
	for i := 0; i < n; i++ {
		if r.Chance(0.8) {
			vseq++
			l, _ := valLen(r, false)
			if l > 800 {
				l = 800
			}
			if r.Chance(0.04) {
				// a record around or above the 64 KiB copy buffer of the upgrade
				l = 65400 + r.Intn(300)
			}
			p.Ops = append(p.Ops, Op{K: "put", Key: r.Intn(nk), VSeq: vseq, VLen: l, A: r.Intn(3)}) // A: how the superseded record dies
		} else {
			p.Ops = append(p.Ops, Op{K: "remove", Key: r.Intn(nk), A: r.Intn(3)})
		}
		if r.Chance(0.3) {
			p.Ops = append(p.Ops, Op{K: "flush"}) // an index record list is appended per touched bucket
		}
	}
	p.X["pastend"] = 0
	if r.Chance(0.15) {
		p.X["pastend"] = 1 + r.Intn(3) // class (d): index entries pointing past the end of the primary
	}
	p.X["mode"] = 0
	if r.Chance(0.5) && p.X["pastend"] == 0 {
		// crash enumeration of the upgrading open (the past-the-end class is a
		// separate, crash-free run class)
		p.X["mode"] = 1
	}
	p.X["sample"] = 30
	if tier == "thorough" {
		p.X["sample"] = 0
	}
	p.X["crash_at"] = -1
	p.X["nested_at"] = -1
	return p
}

type legacyRec struct {
	off   uint64
	size  uint32
	key   []byte
	dg    []byte
	alive bool
}

// shortestPrefixes returns, for sorted distinct stored keys, the minimal
// distinguishing prefix of each (independent re-implementation).
func shortestPrefixes(keys [][]byte) [][]byte {
	out := make([][]byte, len(keys))
	lcp := func(a, b []byte) int {
		n := 0
		for n < len(a) && n < len(b) && a[n] == b[n] {
			n++
		}
		return n
	}
	for i, k := range keys {
		l := 0
		if i > 0 {
			if c := lcp(keys[i-1], k); c > l {
				l = c
			}
		}
		if i+1 < len(keys) {
			if c := lcp(keys[i+1], k); c > l {
				l = c
			}
		}
		l++
		if l > len(k) {
			l = len(k)
		}
		out[i] = k[:l]
	}
	return out
}

// buildLegacy writes the legacy files and returns the expected model.
func buildLegacy(p *Plan, fs *simos.FS) *Model {
	bits := uint8(p.x("oldbits", 8))
	bb := int(bits / 8)
	var primary bytes.Buffer
	var freelist bytes.Buffer
	var index bytes.Buffer
	// legacy index header: [u32 len][version=2][bits]
	hdr := []byte{2, bits, 0, 0}
	binary.Write(&index, binary.LittleEndian, uint32(len(hdr)))
	index.Write(hdr)

	model := NewModel()
	cur := map[string]*legacyRec{} // digest -> live record
	var all []*legacyRec
	touched := map[uint32]bool{}
	markDeleted := func(r *legacyRec) {
		b := primary.Bytes()
		v := binary.LittleEndian.Uint32(b[r.off:])
		binary.LittleEndian.PutUint32(b[r.off:], v|delBit)
	}
	kill := func(r *legacyRec, how int) {
		r.alive = false
		switch how {
		case 0:
			markDeleted(r)
		case 1:
			binary.Write(&freelist, binary.LittleEndian, r.off)
			binary.Write(&freelist, binary.LittleEndian, r.size)
		default:
			markDeleted(r)
			binary.Write(&freelist, binary.LittleEndian, r.off)
			binary.Write(&freelist, binary.LittleEndian, r.size)
		}
	}
	flushIndex := func() {
		bks := make([]uint32, 0, len(touched))
		for b := range touched {
			bks = append(bks, b)
		}
		sort.Slice(bks, func(i, j int) bool { return bks[i] < bks[j] })
		for _, b := range bks {
			var recs []*legacyRec
			for _, r := range cur {
				if Bucket(r.dg, bits) == b {
					recs = append(recs, r)
				}
			}
			sort.Slice(recs, func(i, j int) bool { return bytes.Compare(recs[i].dg, recs[j].dg) < 0 })
			keys := make([][]byte, len(recs))
			for i, r := range recs {
				keys[i] = r.dg[bb:]
			}
			pfx := shortestPrefixes(keys)
			var list bytes.Buffer
			binary.Write(&list, binary.LittleEndian, b)
			for i, r := range recs {
				binary.Write(&list, binary.LittleEndian, r.off)
				binary.Write(&list, binary.LittleEndian, r.size)
				list.WriteByte(byte(len(pfx[i])))
				list.Write(pfx[i])
			}
			binary.Write(&index, binary.LittleEndian, uint32(list.Len()))
			index.Write(list.Bytes())
		}
		touched = map[uint32]bool{}
	}
	for i := range p.Ops {
		op := &p.Ops[i]
		switch op.K {
		case "put":
			k := p.Keys[op.Key%len(p.Keys)]
			mhb := k.Multihash()
			val := mkValue(op.VSeq, op.VLen, false)
			if old := cur[string(k.Digest)]; old != nil {
				kill(old, op.A)
			}
			r := &legacyRec{off: uint64(primary.Len()), size: uint32(len(mhb) + len(val)), key: mhb, dg: k.Digest, alive: true}
			binary.Write(&primary, binary.LittleEndian, r.size)
			primary.Write(mhb)
			primary.Write(val)
			cur[string(k.Digest)] = r
			all = append(all, r)
			model.Set(k.Digest, mval{present: true, key: mhb, val: val})
			touched[Bucket(k.Digest, bits)] = true
		case "remove":
			k := p.Keys[op.Key%len(p.Keys)]
			if old := cur[string(k.Digest)]; old != nil {
				kill(old, op.A)
				delete(cur, string(k.Digest))
				model.Set(k.Digest, mval{})
				touched[Bucket(k.Digest, bits)] = true
			}
		case "flush":
			flushIndex()
		}
	}
	// class (d): some live keys are only referenced by entries that point past
	// the end of the primary: write their final record lists with a bad offset
	if n := p.x("pastend", 0); n > 0 {
		dgs := make([]string, 0, len(cur))
		for dg := range cur {
			dgs = append(dgs, dg)
		}
		sort.Strings(dgs)
		for i := 0; i < n && i < len(dgs); i++ {
			r := cur[dgs[i]]
			r.off = uint64(primary.Len()) + uint64(7+13*i)
			model.Set(r.dg, mval{})
			touched[Bucket(r.dg, bits)] = true
		}
	}
	for b := range allBuckets(cur, bits) {
		touched[b] = true
	}
	flushIndex()
	fs.WriteFileDirect(dataPath, primary.Bytes())
	fs.WriteFileDirect(indexPath, index.Bytes())
	if freelist.Len() > 0 {
		fs.WriteFileDirect(indexPath+".free", freelist.Bytes())
	}
	return model
}

func allBuckets(cur map[string]*legacyRec, bits uint8) map[uint32]bool {
	out := map[uint32]bool{}
	for _, r := range cur {
		out[Bucket(r.dg, bits)] = true
	}
	return out
}

func runLegacy(p *Plan, tape *simrt.Tape, opt RunOpt) *RunOut {
	out := newOut()
	fs := newStoreFS()
	model := buildLegacy(p, fs)
	legacyImg := fs.Snapshot()
	d := NewDriver(p)
	d.Model = model.Clone()
	d.staticProbes()
	mode := p.x("mode", 0)
	pinned := p.x("crash_at", -1)
	var cands []*crashCand
	var hit *crashCand
	upgrading := true
	fs.Hook = func(f *simos.FS, rec *simos.OpRec, data []byte) simos.Action {
		if !upgrading || !rec.Kind.Mutating() || mode != 1 {
			return simos.Action{}
		}
		if p.XS["crash_kind"] != "" {
			if hit == nil && rec.Kind.String() == p.XS["crash_kind"] && strings.Contains(rec.Path, p.XS["crash_path_contains"]) && strings.HasSuffix(rec.Path, p.XS["crash_path_suffix"]) && (p.XS["crash_path_excludes"] == "" || !strings.Contains(rec.Path, p.XS["crash_path_excludes"])) {
				hit = &crashCand{mut: rec.Mut, rec: *rec}
				return simos.Action{Crash: true}
			}
			return simos.Action{}
		}
		if pinned >= 0 {
			if rec.Mut == pinned && hit == nil {
				hit = &crashCand{mut: rec.Mut, rec: *rec}
				return simos.Action{Crash: true, Torn: p.x("torn", 0)}
			}
			return simos.Action{}
		}
		c := &crashCand{mut: rec.Mut, rec: *rec, img: f.Snapshot()}
		if rec.Kind == simos.OpWrite {
			if cur, ok := f.ReadFileDirect(rec.Path); ok && rec.Off >= int64(len(cur)) {
				c.data = append([]byte(nil), data...)
			}
		}
		cands = append(cands, c)
		return simos.Action{}
	}
	forwardOK := false
	w, res := world(p, tape, fs, opt, nil, func() {
		err := d.Open()
		upgrading = false
		if err != nil {
			d.fail("legacy/upgrade-error", "opening the legacy store failed: %v", err)
			return
		}
		d.Probes["upgraded"]++
		legacyCheck(d, "after upgrade")
		if d.Viol != nil {
			return
		}
		forwardOK = true
		// second open is a no-op for the contents
		if !d.CloseStore("legacy") {
			return
		}
		if err := d.Open(); err != nil {
			d.fail("legacy/reopen-error", "second open after the upgrade failed: %v", err)
			return
		}
		legacyCheck(d, "after second open")
		if d.Viol != nil {
			return
		}
		d.CloseStore("legacy")
	})
	out.addFS(fs)
	out.FinalFS = fs
	fs.Hook = nil
	if pinned >= 0 || p.XS["crash_kind"] != "" {
		out.addDriver(d)
		out.Worlds++
		out.Steps += res.Steps
		out.Outcome = res.Outcome.String()
		if hit == nil || res.Outcome != simrt.OutCrash {
			out.Probes["crash-point-not-reached"]++
			return out
		}
		out.Faults["crash"]++
		where := fmt.Sprintf("crash before %s %s (mutating op %d of the upgrading open, torn=%d)", hit.rec.Kind, hit.rec.Path, hit.mut, p.x("torn", 0))
		out.Viol = legacyRecover(p, out, fs.Snapshot(), model, p.x("nested_at", -1), where)
		return out
	}
	out.addDriver(d)
	finish(out, w, res, p, d.Viol, opt)
	out.Sample = fmt.Sprintf("oldbits=%d cfg=%+v keys=%d pastend=%d legacy-history=%v", p.x("oldbits", 8), p.Cfg, len(p.Keys), p.x("pastend", 0), opsString(p.Ops, 10))
	_ = legacyImg
	if mode != 1 || out.Viol != nil || !forwardOK {
		return out
	}
	out.Probes["crash-points"] += len(cands)
	r := simrt.NewRand(p.Seed ^ 0x10c)
	type job struct {
		c    *crashCand
		torn int
	}
	var jobs []job
	sample := p.x("sample", 30)
	all := sample == 0
	for _, c := range cands {
		jobs = append(jobs, job{c: c})
		if c.data != nil {
			for _, k := range tornLengths(len(c.data), r, all) {
				jobs = append(jobs, job{c: c, torn: k})
			}
		}
	}
	if !all && len(jobs) > sample {
		for i := len(jobs) - 1; i > 0; i-- {
			j := r.Intn(i + 1)
			jobs[i], jobs[j] = jobs[j], jobs[i]
		}
		jobs = jobs[:sample]
	}
	// steering rules of known findings (keyed by operation paths):
	// KF-1: non-atomic directory swap at the end of translateIndex
	// KF-2: remapIndex creates the .remapped marker before renaming the remapped copy into place
	swapFrom, swapTo := -1, -1
	if Steering("C10-translate-swap-window", p) {
		for _, c := range cands {
			if c.rec.Kind == simos.OpRename && strings.Contains(c.rec.Path2, "/old_index") && swapFrom < 0 {
				swapFrom = c.mut
			}
			if c.rec.Kind == simos.OpRename && strings.Contains(c.rec.Path, "/new_index") && strings.HasSuffix(c.rec.Path, "index.info") {
				swapTo = c.mut
			}
		}
	}
	seen := map[uint64]bool{}
	for _, j := range jobs {
		if swapFrom >= 0 && j.c.mut > swapFrom && (swapTo < 0 || j.c.mut <= swapTo) {
			out.Probes["steered-away"]++
			continue
		}
		if Steering("C10-remap-marker-window", p) && isRemapRename(&j.c.rec) {
			out.Probes["steered-away"]++
			continue
		}
		img := j.c.img
		if j.torn > 0 {
			img = tornImage(j.c, j.torn)
		}
		h := img.Hash()
		if seen[h] {
			continue
		}
		seen[h] = true
		out.States = append(out.States, h)
		out.Faults["crash"]++
		if j.torn > 0 {
			out.Faults["torn"]++
		}
		nested := -1
		if r.Chance(0.15) {
			nested = r.Intn(12)
		}
		where := fmt.Sprintf("crash before %s %s (mutating op %d of the upgrading open, torn=%d)", j.c.rec.Kind, j.c.rec.Path, j.c.mut, j.torn)
		if v := legacyRecover(p, out, img, model, nested, where); v != nil {
			out.Viol = v
			pp := p.Clone()
			pp.X["crash_at"] = j.c.mut
			pp.X["torn"] = j.torn
			pp.X["nested_at"] = nested
			out.Pinned = pp
			return out
		}
	}
	return out
}

// isRemapRename recognises the rename of a remapped index copy into place.
func isRemapRename(rec *simos.OpRec) bool {
	return rec.Kind == simos.OpRename && strings.HasSuffix(rec.Path, ".tmp") && isNumSuffix(rec.Path2)
}

// legacyCheck: contents equal the model exactly, then a flush and fsck.
func legacyCheck(d *Driver, where string) {
	d.ReadBack("legacy")
	if d.Viol != nil {
		d.Viol.Msg = where + ": " + d.Viol.Msg
		return
	}
	r := d.Call(&Op{K: "iter"})
	d.CheckSeq(&Op{K: "iter"}, r)
	if d.Viol != nil {
		d.Viol.Class = "legacy/" + d.Viol.Class
		d.Viol.Msg = where + ": " + d.Viol.Msg
		return
	}
	d.RunFsck(where, false)
	if d.Viol != nil {
		d.Viol.Class = "legacy/" + d.Viol.Class
	}
}

// legacyRecover: open again after an interrupted upgrade (optionally crashing
// once more during that open); the open that completes must show the model.
func legacyRecover(p *Plan, out *RunOut, img *simos.Image, model *Model, nestedAt int, where string) *Violation {
	if nestedAt >= 0 {
		fs := simos.Boot(img)
		fs.Hook = func(f *simos.FS, rec *simos.OpRec, data []byte) simos.Action {
			if rec.Kind.Mutating() && rec.Mut == nestedAt {
				if Steering("C10-remap-marker-window", p) && isRemapRename(rec) {
					return simos.Action{}
				}
				if Steering("C10-translate-swap-window", p) && (strings.Contains(rec.Path, "_index1") || strings.Contains(rec.Path2, "_index1")) {
					return simos.Action{}
				}
				return simos.Action{Crash: true}
			}
			return simos.Action{}
		}
		d := NewDriver(p)
		_, res := world(p, simrt.ReplayTape(nil), fs, RunOpt{}, nil, func() { d.Open() })
		out.Worlds++
		if res.Outcome == simrt.OutCrash {
			out.Faults["crash-nested"]++
			fs.Hook = nil
			img = fs.Snapshot()
			where += fmt.Sprintf(" + second crash before mutating op %d of the resuming open", nestedAt)
		} else if res.Outcome == simrt.OutPanic {
			return &Violation{Prop: p.Prop, Class: "legacy/crash-panic", Msg: where + ": resuming open panicked: " + res.Reason + "\n" + trimStack(res.PanicStack)}
		}
	}
	fs := simos.Boot(img)
	d := NewDriver(p)
	d.Model = model.Clone()
	_, res := world(p, simrt.ReplayTape(nil), fs, RunOpt{}, nil, func() {
		if err := d.Open(); err != nil {
			d.fail("legacy/resume-error", "%s: opening again after the interrupted upgrade failed: %v", where, err)
			return
		}
		legacyCheck(d, where+": after resumed upgrade")
		if d.Viol != nil {
			return
		}
		d.CloseStore("legacy")
	})
	out.Worlds++
	out.Steps += res.Steps
	out.Probes["recoveries"]++
	if d.Viol != nil {
		if d.Viol.Class[:7] != "legacy/" {
			d.Viol.Class = "legacy/" + d.Viol.Class
		}
		d.Viol.Class = "legacy/resume/" + d.Viol.Class[7:]
		return d.Viol
	}
	if res.Outcome == simrt.OutPanic {
		return &Violation{Prop: p.Prop, Class: "legacy/crash-panic", Msg: where + ": resumed store panicked: " + res.Reason + "\n" + trimStack(res.PanicStack)}
	}
	return nil
}
