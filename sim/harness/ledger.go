package harness

import (
	"fmt"
	"sort"
	"strings"

	"github.com/ipld/go-storethehash/store/types"

	"verif/sim/simos"
	"verif/sim/simrt"
	"verif/sim/simsync"
)

// C13: every superseded primary location is freed exactly once. The ledger
// compares the multiset of locations the harness expects to be freed (computed
// from index locations observed through the public Index.Get before and after
// each call and each GC cycle) with the entries observed in the freelist file
// plus every batch handed over to GC (captured at the rename to .gc).

func init() {
	generators["C13"] = genC13
	engines["ledgerconc"] = runLedgerConc
}

// runLedgerConc: concurrent writers on disjoint key sets (each key has one
// writer, so its expected frees are well defined), flusher, flush client and a
// GC client hammering the freelist hand-over.
func runLedgerConc(p *Plan, tape *simrt.Tape, opt RunOpt) *RunOut {
	out := newOut()
	fs := newStoreFS()
	d := NewDriver(p)
	d.staticProbes()
	d.Ledger = newLedger()
	d.Ledger.pmax = uint64(p.Cfg.PrimaryFile)
	d.Ledger.concurrent = true
	if p.X["reloc"] == 1 {
		// GC relocates records while writers run: the harness cannot derive the
		// expected multiset from what it saw, so the structural form of the
		// property is checked instead (CheckLeaks)
		d.Ledger.exact = false
	}
	d.Ledger.installHook(fs)
	cs := &concState{p: p, d: d, hists: make([][]HistOp, len(p.Clients)+1), ledger: true}
	w, res := world(p, tape, fs, opt, nil, func() {
		if err := d.Open(); err != nil {
			cs.fail("open-error", "OpenStore failed: %v", err)
			return
		}
		var wg simsync.WaitGroup
		for ci := range p.Clients {
			ci := ci
			wg.Add(1)
			simrt.Go(fmt.Sprintf("client%d", ci), func() {
				defer wg.Done()
				cs.client(ci, p.Clients[ci])
			})
		}
		wg.Wait()
		if cs.viol != nil || d.Viol != nil {
			return
		}
		if p.x("bgtiny", 0) == 1 {
			// idle store, background collector with a tiny time limit: within 40
			// GC intervals there must be an instant at which the freelist file is
			// empty and no hand-over file with entries exists (all handed over and
			// processed)
			if err := d.St.Flush(); err != nil {
				d.fail("ledger/flush-error", "Flush failed: %v", err)
				return
			}
			drained := false
			for i := 0; i < 40*20 && !drained; i++ {
				simrt.Sleep(d.Cfg.GCMs * 1000000 / 20)
				files := fsOf().Files()
				drained = len(files[indexPath+".free"]) == 0 && len(files[indexPath+".free.gc"]) == 0
			}
			if !drained {
				files := fsOf().Files()
				d.fail("ledger/bg-handover-never-processed", "idle store, background primary GC every %d ms with a time limit of %d ms on a disk with %d us per operation: after 40 GC intervals the freelist file still holds %d bytes and the hand-over file %d bytes; the freelist pass of a cycle is not subject to the time limit, so the entries should have been handed over and processed", d.Cfg.GCMs, d.Cfg.GCLimitMs, p.Sim.Latency.Base/1000, len(files[indexPath+".free"]), len(files[indexPath+".free.gc"]))
				return
			}
			d.cprobe("bg-handover-drained")
			// the rest runs explicit cycles: no background collectors next to them
			d.Cfg.GCMs = 1000 * 3600 * 1000
			d.Cfg.GCLimitMs = 0
		}
		// Close writes everything that is still pooled (Store.Flush skips the
		// freelist when neither index nor primary has work), then reopen to look
		// at the index again
		if !d.CloseStore("final") {
			return
		}
		if err := d.Open(); err != nil {
			d.fail("reopen/open-error", "reopen failed: %v", err)
			return
		}
		d.CheckLedger("after all writers finished, Close and reopen")
		d.CheckLeaks("after all writers finished, Close and reopen")
		if d.Viol != nil {
			return
		}
		// one more hand-over and a clean restart must not duplicate or lose entries
		d.PrimaryGC(&Op{K: "pgc", A: 101})
		d.PrimaryGC(&Op{K: "pgc", A: 101})
		d.checkBatchesApplied("after two final GC cycles")
		d.CheckLedger("after a final GC cycle")
		d.CheckLeaks("after a final GC cycle")
		if d.Viol != nil {
			return
		}
		if !d.CloseStore("final") {
			return
		}
		if err := d.Open(); err != nil {
			d.fail("reopen/open-error", "reopen failed: %v", err)
			return
		}
		d.CheckLedger("after clean restart")
		d.CloseStore("final")
	})
	d.fileProbes(fs)
	out.addFS(fs)
	out.FinalFS = fs
	out.addDriver(d)
	out.Probes["handover-batches"] += d.Ledger.nbatch
	out.Probes["concurrent"]++
	viol := d.Viol
	if viol == nil {
		viol = cs.viol
	}
	if viol != nil && !strings.HasPrefix(viol.Class, "ledger/") {
		out.Probes["other-oracle-failed"]++
		viol = nil
	}
	finish(out, w, res, p, viol, opt)
	if out.Viol != nil && !strings.HasPrefix(out.Viol.Class, "ledger/") {
		out.Probes["other-oracle-failed"]++
		out.Viol = nil
	}
	out.Sample = fmt.Sprintf("cfg=%+v clients=%s", p.Cfg, clientsString(p.Clients))
	return out
}

type locKey struct {
	Off  uint64
	Size uint32
}

// Ledger is the freelist oracle state.
type Ledger struct {
	expected   map[locKey]int
	batches    map[locKey]int // entries of every batch handed over to GC
	nbatch     int
	exact      bool            // expected multiset is complete (no concurrent relocation)
	ever       map[locKey]bool // locations that were current for some key at some time
	concurrent bool
	applicable map[locKey]bool // batch entries whose record was on disk at hand-over
	pmax       uint64
}

func newLedger() *Ledger {
	return &Ledger{expected: map[locKey]int{}, batches: map[locKey]int{}, exact: true, ever: map[locKey]bool{}, applicable: map[locKey]bool{}}
}

func lk(b types.Block) locKey { return locKey{uint64(b.Offset), uint32(b.Size)} }

// installHook captures every freelist batch at the moment it is handed to GC.
func (l *Ledger) installHook(fs *simos.FS) {
	prev := fs.Hook
	fs.Hook = func(f *simos.FS, rec *simos.OpRec, data []byte) simos.Action {
		if rec.Kind == simos.OpRename && strings.HasSuffix(rec.Path2, ".free.gc") {
			if d, ok := f.ReadFileDirect(rec.Path); ok {
				for _, e := range parseFreeList(d) {
					k := locKey{e.Off, e.Size}
					l.batches[k]++
					// was the record on disk (complete, same size, not yet deleted)
					// when the batch was handed over? Only then can GC act on it.
					if l.pmax != 0 {
						pf, local := e.Off/l.pmax, e.Off%l.pmax
						if pd, ok := f.ReadFileDirect(fmt.Sprintf("%s.%d", dataPath, pf)); ok && local+4+uint64(e.Size) <= uint64(len(pd)) {
							sz := uint32(pd[local]) | uint32(pd[local+1])<<8 | uint32(pd[local+2])<<16 | uint32(pd[local+3])<<24
							if sz == e.Size {
								l.applicable[k] = true
							}
						}
					}
				}
				l.nbatch++
			}
		}
		if prev != nil {
			return prev(f, rec, data)
		}
		return simos.Action{}
	}
}

// curLoc returns the current location of a key the model says is present.
func (d *Driver) curLoc(k KeySpec) (types.Block, bool) {
	blk, found, err := d.St.Index().Get(k.Digest)
	if err != nil || !found {
		return types.Block{}, false
	}
	return blk, true
}

// ledgerBefore/After bracket a put/reput/remove.
func (d *Driver) ledgerBefore(op *Op) (types.Block, bool) {
	if d.Ledger == nil {
		return types.Block{}, false
	}
	k, _ := d.key(op)
	if !d.Model.Get(k.Digest).present {
		return types.Block{}, false
	}
	return d.curLoc(k)
}

func (d *Driver) ledgerAfter(op *Op, before types.Block, had bool, r Res) {
	if d.Ledger == nil || r.Err != "" {
		return
	}
	k, _ := d.key(op)
	now, ok := d.curLoc(k)
	present := d.Model.Get(k.Digest).present
	if present && ok {
		d.Ledger.ever[lk(now)] = true
	}
	if !had {
		return
	}
	d.Ledger.ever[lk(before)] = true
	if !present || !ok || now != before {
		// the location stopped being current
		d.Ledger.expected[lk(before)]++
		d.cprobe("superseded")
	}
}

// allLocs returns the current location of every present key.
func (d *Driver) allLocs() map[string]types.Block {
	out := map[string]types.Block{}
	for i := range d.P.Keys {
		k := d.P.Keys[i]
		if d.Model.Get(k.Digest).present {
			if b, ok := d.curLoc(k); ok {
				out[string(k.Digest)] = b
			}
		}
	}
	return out
}

// ledgerGC brackets a primary GC cycle (relocation supersedes locations).
func (d *Driver) ledgerGC(before map[string]types.Block) {
	if d.Ledger == nil {
		return
	}
	after := d.allLocs()
	for dg, b := range before {
		d.Ledger.ever[lk(b)] = true
		if a, ok := after[dg]; ok && a != b {
			d.Ledger.expected[lk(b)]++
			d.Ledger.ever[lk(a)] = true
			d.cprobe("relocated")
		}
	}
}

// CheckLedger compares expected and observed at a quiescent point (the store
// must have been flushed).
func (d *Driver) CheckLedger(where string) {
	l := d.Ledger
	if l == nil || d.Viol != nil {
		return
	}
	fs := fsOf()
	observed := map[locKey]int{}
	for k, n := range l.batches {
		observed[k] += n
	}
	if data, ok := fs.ReadFileDirect(indexPath + ".free"); ok {
		if len(data)%12 != 0 {
			d.fail("ledger/torn-freelist", "%s: freelist file length %d is not a multiple of the entry size", where, len(data))
			return
		}
		for _, e := range parseFreeList(data) {
			observed[locKey{e.Off, e.Size}]++
		}
	}
	d.cprobe("ledger-check")
	// I1: nothing recorded twice
	keys := make([]locKey, 0, len(observed))
	for k := range observed {
		keys = append(keys, k)
	}
	sort.Slice(keys, func(i, j int) bool { return keys[i].Off < keys[j].Off })
	for _, k := range keys {
		if observed[k] > 1 {
			d.fail("ledger/freed-twice", "%s: location %d (size %d) was recorded on the freelist %d times", where, k.Off, k.Size, observed[k])
			return
		}
	}
	// I2: no current location is recorded
	cur := d.allLocs()
	dgs := make([]string, 0, len(cur))
	for dg := range cur {
		dgs = append(dgs, dg)
	}
	sort.Strings(dgs)
	for _, dg := range dgs {
		if observed[lk(cur[dg])] > 0 {
			d.fail("ledger/current-location-freed", "%s: the current location %d of key %x is on the freelist", where, cur[dg].Offset, dg)
			return
		}
	}
	if !l.exact {
		return
	}
	// I3: exactly the superseded locations, each once
	ek := make([]locKey, 0, len(l.expected))
	for k := range l.expected {
		ek = append(ek, k)
	}
	sort.Slice(ek, func(i, j int) bool { return ek[i].Off < ek[j].Off })
	for _, k := range ek {
		if observed[k] != l.expected[k] {
			d.fail("ledger/not-freed", "%s: location %d (size %d) stopped being current %d time(s) but is recorded %d time(s) on the freelist (file + %d batches handed to GC)", where, k.Off, k.Size, l.expected[k], observed[k], l.nbatch)
			return
		}
	}
	for _, k := range keys {
		// locations that never were current (copies GC made and could not
		// index) are legitimately freed
		if l.expected[k] == 0 && l.ever[k] {
			d.fail("ledger/spurious-free", "%s: location %d (size %d) is on the freelist but no key stopped using it", where, k.Off, k.Size)
			return
		}
	}
}

// CheckLeaks is the structural form of "every superseded location is recorded":
// at a quiescent point (flushed, no call in progress) every complete primary
// record that is not marked deleted is either the current location of a key or
// recorded on the freelist (file, or a batch handed over to GC). A record that
// is neither can never be reclaimed. It does not depend on what the harness saw
// during the run, so it also holds when GC relocates records under the writers.
func (d *Driver) CheckLeaks(where string) {
	l := d.Ledger
	if l == nil || d.Viol != nil || d.Cfg.Primary != "multihash" {
		return
	}
	fs := fsOf()
	files := fs.Files()
	recorded := map[locKey]bool{}
	for k := range l.batches {
		recorded[k] = true
	}
	for _, name := range []string{indexPath + ".free", indexPath + ".free.gc"} {
		if data, ok := files[name]; ok {
			for _, e := range parseFreeList(data) {
				recorded[locKey{e.Off, e.Size}] = true
			}
		}
	}
	current := map[locKey]bool{}
	for i := range d.P.Keys {
		if blk, found, err := d.St.Index().Get(d.P.Keys[i].Digest); err == nil && found {
			current[lk(blk)] = true
		}
	}
	pmax := uint64(d.Cfg.PrimaryFile)
	pf := numberedFiles(files, dataPath)
	nums := make([]uint32, 0, len(pf))
	for n := range pf {
		nums = append(nums, n)
	}
	sort.Slice(nums, func(i, j int) bool { return nums[i] < nums[j] })
	for _, n := range nums {
		data := pf[n]
		for pos := uint64(0); pos+4 <= uint64(len(data)); {
			v := uint32(data[pos]) | uint32(data[pos+1])<<8 | uint32(data[pos+2])<<16 | uint32(data[pos+3])<<24
			sz := v &^ delBit
			if pos+4+uint64(sz) > uint64(len(data)) {
				break // partial tail
			}
			if v&delBit == 0 {
				k := locKey{uint64(n)*pmax + pos, sz}
				if !current[k] && !recorded[k] {
					d.fail("ledger/leaked-location", "%s: the primary record at %d (size %d, file %d) is intact, is not the current location of any key, and is neither on the freelist nor in any batch handed to GC: it stopped being current without being recorded and can never be reclaimed", where, k.Off, k.Size, n)
					return
				}
			}
			pos += 4 + uint64(sz)
		}
	}
	d.cprobe("leak-check")
}

// checkBatchesApplied: after a primary GC cycle that ran to completion, every
// entry of every batch handed over so far must have been applied: the record is
// marked deleted, or no longer exists (truncated tail / unlinked file).
func (d *Driver) checkBatchesApplied(where string) {
	l := d.Ledger
	if l == nil || d.Viol != nil {
		return
	}
	files := fsOf().Files()
	pmax := uint64(d.Cfg.PrimaryFile)
	keys := make([]locKey, 0, len(l.batches))
	for k := range l.batches {
		keys = append(keys, k)
	}
	sort.Slice(keys, func(i, j int) bool { return keys[i].Off < keys[j].Off })
	for _, k := range keys {
		if !l.applicable[k] {
			continue // the record was not on disk when the batch was handed over
		}
		f, local := k.Off/pmax, k.Off%pmax
		data, ok := files[fmt.Sprintf("%s.%d", dataPath, f)]
		if !ok || local+4 > uint64(len(data)) {
			continue // file unlinked or tail truncated: released
		}
		sz := uint32(data[local]) | uint32(data[local+1])<<8 | uint32(data[local+2])<<16 | uint32(data[local+3])<<24
		if sz&delBit != 0 {
			continue
		}
		if sz == k.Size {
			d.fail("ledger/handed-over-not-applied", "%s: location %d (size %d) was handed over to GC in a freelist batch, a GC cycle has since run to completion, but the record is still intact and not marked deleted (the batch was dropped unprocessed)", where, k.Off, k.Size)
			return
		}
	}
	d.cprobe("batches-applied-check")
}

// genC13: sequential histories with overwrites, removals, GC cycles (with
// relocation), flushes and clean restarts.
func genC13(seed uint64, tier string) *Plan {
	r := simrt.NewRand(seed)
	if r.Chance(0.35) {
		return genC13Conc(seed, tier)
	}
	if r.Chance(0.15) {
		return genC13Crash(seed, tier)
	}
	p := genC04(seed^0x1313, tier)
	p.Cfg.Primary = "multihash"
	p.Cfg.Immutable = r.Chance(0.15)
	p.X["ledger"] = 1
	// more overwrites: fewer keys
	if len(p.Keys) > 5 {
		p.Keys = p.Keys[:5]
	}
	var out []Op
	for _, o := range p.Ops {
		if o.K == "igc" && o.B > 0 {
			o.B = 0
		}
		out = append(out, o)
		if r.Chance(0.08) {
			out = append(out, Op{K: "reopen", A: r.Intn(2)})
		}
	}
	p.Ops = out
	return p
}

// genC13Crash: the crash class of C13. A sequential history with frequent
// primary GC cycles (freelist hand-over) is crashed at every mutating file
// operation that touches the freelist file or its .gc hand-over file (plus a
// few others); the recovered store runs three complete primary GC cycles and
// every entry that was durable in the freelist file or the hand-over file at
// the crash must then have been applied (crashEntriesApplied).
func genC13Crash(seed uint64, tier string) *Plan {
	r := simrt.NewRand(seed ^ 0x13c7a5)
	p := genC03(seed^0x13c3, tier)
	for p.Cfg.Primary != "multihash" || p.X["bg"] == 1 {
		seed++
		p = genC03(seed^0x13c3, tier)
	}
	p.X["c13crash"] = 1
	if len(p.Keys) > 4 {
		p.Keys = p.Keys[:4] // more overwrites
	}
	var out []Op
	for _, o := range p.Ops {
		if o.Key >= len(p.Keys) {
			o.Key %= len(p.Keys)
		}
		out = append(out, o)
		if (o.K == "put" || o.K == "remove") && r.Chance(0.35) {
			out = append(out, Op{K: "flush"})
		}
		if r.Chance(0.25) {
			op := Op{K: "pgc", A: []int{101, 101, 0, 50}[r.Intn(4)]}
			if r.Chance(0.25) {
				op.B = 1 + r.Intn(8) // interrupted: leaves the hand-over file behind
			}
			out = append(out, op)
		}
	}
	p.Ops = out
	return p
}

// crashEntriesApplied: entries is what the freelist file and the hand-over file
// held in the crash image (whole 12-byte entries); a durable entry names a
// location that the durable index no longer refers to (the commit writes the
// freelist after the index), so after recovery and complete GC cycles its
// record must be marked deleted or be gone. Entries whose record was not
// intact in the image (never written, torn, already deleted or released) are
// exempt.
func crashEntriesApplied(img *simos.Image, pmax uint64) (check func(files map[string][]byte) (locKey, bool)) {
	var ents []locKey
	for _, name := range []string{indexPath + ".free", indexPath + ".free.gc"} {
		for _, e := range parseFreeList(img.Files[name]) {
			ents = append(ents, locKey{e.Off, e.Size})
		}
	}
	intact := func(files map[string][]byte, k locKey) bool {
		f, local := k.Off/pmax, k.Off%pmax
		data, ok := files[fmt.Sprintf("%s.%d", dataPath, f)]
		if !ok || local+4+uint64(k.Size) > uint64(len(data)) {
			return false
		}
		sz := uint32(data[local]) | uint32(data[local+1])<<8 | uint32(data[local+2])<<16 | uint32(data[local+3])<<24
		return sz == k.Size // not deleted, same size
	}
	var applicable []locKey
	for _, k := range ents {
		if intact(img.Files, k) {
			applicable = append(applicable, k)
		}
	}
	return func(files map[string][]byte) (locKey, bool) {
		for _, k := range applicable {
			if intact(files, k) {
				return k, false
			}
		}
		return locKey{}, true
	}
}

// genC13Conc: writers on disjoint key sets + flusher + a GC task hammering the
// hand-over (no relocation, so that the expected multiset is well defined).
func genC13Conc(seed uint64, tier string) *Plan {
	r := simrt.NewRand(seed ^ 0x13c)
	p := genConcBase(r, true)
	p.Engine = "ledgerconc"
	p.Cfg.Primary = "multihash"
	p.Cfg.Immutable = false
	p.Cfg.GCMs = 1000 * 3600 * 1000
	p.X["ledger"] = 1
	// disjoint key sets: client c only touches keys with index % nclients == c
	var writers [][]Op
	for _, c := range p.Clients {
		isWriter := false
		for _, o := range c {
			if o.K == "put" || o.K == "remove" {
				isWriter = true
			}
		}
		if isWriter {
			writers = append(writers, c)
		}
	}
	if len(writers) == 0 {
		writers = [][]Op{{{K: "put", Key: 0, VSeq: 1, VLen: 8}}}
	}
	nw := len(writers)
	for len(p.Keys) < nw {
		k := GenKeys(r, 1, false)[0]
		dup := false
		for _, o := range p.Keys {
			if string(o.Digest) == string(k.Digest) {
				dup = true
			}
		}
		if !dup {
			p.Keys = append(p.Keys, k)
		}
	}
	for ci := range writers {
		for i := range writers[ci] {
			o := &writers[ci][i]
			if o.K == "sleep" {
				continue
			}
			// map to a key owned by this client
			owned := 0
			for k := range p.Keys {
				if k%nw == ci {
					owned++
				}
			}
			j := o.Key % owned
			for k := range p.Keys {
				if k%nw == ci {
					if j == 0 {
						o.Key = k
						break
					}
					j--
				}
			}
		}
	}
	p.Clients = writers
	// flush client and GC client (threshold 101: mark/truncate only, no relocation)
	var fl, g []Op
	for i := 0; i < 2+r.Intn(4); i++ {
		fl = append(fl, Op{K: "sleep", A: 1 + r.Intn(1500)}, Op{K: "flush"})
	}
	thr := 101
	if r.Chance(0.4) {
		// relocating GC under the writers (low-use threshold 0: every file with
		// a busy record qualifies)
		thr = []int{0, 0, 20, 60}[r.Intn(4)]
		p.X["reloc"] = 1
	}
	for i := 0; i < 2+r.Intn(6); i++ {
		g = append(g, Op{K: "sleep", A: 1 + r.Intn(1500)}, Op{K: "pgc", A: thr})
	}
	if r.Chance(0.15) {
		// background variant: no explicit GC client; the store's own primary
		// collector runs on a short interval with a time limit that is shorter
		// than one pass over the hand-over file on a slow disk. The freelist pass
		// of a cycle is not subject to the time limit, so every entry must still
		// be handed over and processed while the store is idle afterwards.
		p.X["bgtiny"] = 1
		p.X["reloc"] = 1 // the collector's low-use threshold applies: structural checks
		p.Cfg.GCMs = int64(2 + r.Intn(9))
		p.Cfg.GCLimitMs = 1
		p.Cfg.Flusher = true
		p.Sim.Latency = LatencyCfg{Kind: "const", Base: int64(1000 * (100 + r.Intn(250)))}
		// the bound below is stated in simulated time: no timing faults in this
		// variant (a collector descheduled for 30 ms would simply be late)
		p.Sim.PreemptEvery, p.Sim.PreemptNs, p.Sim.JitterNs, p.Sim.SlowMod = 0, 0, 0, 0
		p.Clients = append(p.Clients, fl)
	} else {
		p.Clients = append(p.Clients, fl, g)
	}
	p.X["writers"] = nw
	return p
}

var _ = fmt.Sprintf
var _ = simrt.NewRand
