package harness

import (
	"bytes"
	"fmt"
	"strings"
)

// Recovery admissibility (oracle 4): for every key, the values a recovered store
// may legitimately show after a crash.

type admKey struct {
	durable mval   // state at the last Flush/Close that returned
	pend    []mval // states written (returned or in flight) since then
}

// Adm is the admissible-state tracker of a driver.
type Adm struct {
	keys map[string]*admKey
}

func newAdm() *Adm { return &Adm{keys: map[string]*admKey{}} }

func (a *Adm) k(d []byte) *admKey {
	x := a.keys[string(d)]
	if x == nil {
		x = &admKey{}
		a.keys[string(d)] = x
	}
	return x
}

// wrote records that a state may have reached the store.
func (a *Adm) wrote(d []byte, v mval) { k := a.k(d); k.pend = append(k.pend, v) }

// flushed records a completed Flush/Close with the model as it was when the
// flush STARTED (everything acknowledged before it is durable).
func (a *Adm) flushed(m *Model) {
	for d, k := range a.keys {
		k.durable = m.m[d]
		k.pend = nil
	}
	for d, v := range m.m {
		k := a.k([]byte(d))
		k.durable = v
		k.pend = nil
	}
}

// clone copies the tracker (values are immutable, so shallow per state).
func (a *Adm) clone() *Adm {
	c := newAdm()
	for d, k := range a.keys {
		c.keys[d] = &admKey{durable: k.durable, pend: append([]mval(nil), k.pend...)}
	}
	return c
}

// admissible reports whether observing (present, val) for digest d is allowed.
func (a *Adm) admissible(d []byte, present bool, val []byte) bool {
	k := a.keys[string(d)]
	if k == nil {
		return !present
	}
	if k.durable.present == present && (!present || bytes.Equal(k.durable.val, val)) {
		return true
	}
	for _, p := range k.pend {
		if p.present == present && (!present || bytes.Equal(p.val, val)) {
			return true
		}
	}
	return false
}

func (a *Adm) describe(d []byte) string {
	k := a.keys[string(d)]
	if k == nil {
		return "{absent}"
	}
	var parts []string
	st := func(v mval) string {
		if !v.present {
			return "absent"
		}
		return short(v.val)
	}
	parts = append(parts, "flushed:"+st(k.durable))
	for _, p := range k.pend {
		parts = append(parts, "later:"+st(p))
	}
	return "{" + strings.Join(parts, " ") + "}"
}

// noteBefore records the possible effect of op before it is executed (so that a
// crash in the middle of the call finds it among the admissible states).
func (d *Driver) noteBefore(op *Op) {
	if d.Adm == nil {
		return
	}
	switch op.K {
	case "put":
		k, sk := d.key(op)
		d.Adm.wrote(k.Digest, mval{present: true, key: sk, val: mkValue(op.VSeq, op.VLen, op.VNil)})
	case "reput":
		k, sk := d.key(op)
		cur := d.Model.Get(k.Digest)
		d.Adm.wrote(k.Digest, mval{present: true, key: sk, val: cur.val})
	case "remove":
		k, _ := d.key(op)
		d.Adm.wrote(k.Digest, mval{})
	}
}

// noteFlushed is called when Flush or Close returned nil; startModel is the
// model at the time the call started.
func (d *Driver) noteFlushed(startModel *Model) {
	if d.Adm != nil {
		d.Adm.flushed(startModel)
	}
}

// RunFsck checks the on-disk structures (C07 invariant) and that the content
// reachable on disk equals the model. Only valid at a quiescent point after a
// Flush or Close.
func (d *Driver) RunFsck(where string, closed bool) {
	fs := fsOf()
	files := fs.Files()
	disk := Fsck(fsckInput{Files: files, Primary: d.Cfg.Primary})
	d.cprobe("fsck")
	if len(disk.Errs) > 0 {
		d.fail("fsck/disk", "%s: on-disk structures inconsistent (table rebuilt by scanning the log): %s", where, strings.Join(disk.Errs, "; "))
		return
	}
	d.compareContent("fsck/disk-content", where, disk)
	if d.Viol != nil {
		return
	}
	var live []uint64
	if closed {
		if sb, ok := files[indexPath+".buckets"]; ok {
			live = SnapshotTable(sb)
		}
	} else if d.St != nil && d.Cfg.Bits <= 17 {
		tb := d.St.Index().VerifBuckets()
		live = make([]uint64, len(tb))
		for i, p := range tb {
			live[i] = uint64(p)
		}
	}
	if live == nil {
		return
	}
	lv := Fsck(fsckInput{Files: files, Primary: d.Cfg.Primary, Live: live})
	if len(lv.Errs) > 0 {
		src := "in-memory bucket table"
		if closed {
			src = "bucket snapshot file"
		}
		d.fail("fsck/live", "%s: %s inconsistent with files: %s", where, src, strings.Join(lv.Errs, "; "))
		return
	}
	d.compareContent("fsck/live-content", where, lv)
	if d.Viol != nil {
		return
	}
	// both recovery paths must describe the same state
	for b, raw := range lv.Lists {
		if !bytes.Equal(disk.Lists[b], raw) {
			d.fail("fsck/table-vs-rescan", "%s: bucket %d: live table and log rescan resolve to different record lists", where, b)
			return
		}
	}
	for b, raw := range disk.Lists {
		if _, ok := lv.Lists[b]; !ok && len(raw) > 0 {
			d.fail("fsck/table-vs-rescan", "%s: bucket %d: log rescan finds a non-empty record list, live table has none", where, b)
			return
		}
	}
}

func (d *Driver) compareContent(class, where string, r *FsckResult) {
	for _, dg := range d.Model.Digests() {
		mv := d.Model.m[dg]
		got, ok := r.Content[dg]
		if !ok {
			d.fail(class, "%s: key %x of the model is not reachable on disk", where, dg)
			return
		}
		if !bytes.Equal(got.val, mv.val) {
			d.fail(class, "%s: key %x has value %s on disk, model has %s", where, dg, short(got.val), short(mv.val))
			return
		}
		if !bytes.Equal(got.key, mv.key) {
			d.fail(class, "%s: key %x stored as %x on disk, model has %x", where, dg, got.key, mv.key)
			return
		}
	}
	if len(r.Content) != d.Model.Len() {
		for dg := range r.Content {
			if _, ok := d.Model.m[dg]; !ok {
				d.fail(class, "%s: disk holds key %x which the model does not contain", where, dg)
				return
			}
		}
	}
}

var _ = fmt.Sprintf

// RunFsckLoose is RunFsck for runs without a sequential model (concurrent
// engines): structures must be consistent and the two table sources must
// agree, but contents are not compared with a model.
func (d *Driver) RunFsckLoose(where string, closed bool) {
	fs := fsOf()
	files := fs.Files()
	disk := Fsck(fsckInput{Files: files, Primary: d.Cfg.Primary})
	d.cprobe("fsck")
	if len(disk.Errs) > 0 {
		d.fail("fsck/disk", "%s: on-disk structures inconsistent (table rebuilt by scanning the log): %s", where, strings.Join(disk.Errs, "; "))
		return
	}
	if d.St == nil || d.Cfg.Bits > 17 {
		return
	}
	var live []uint64
	if closed {
		sb, ok := files[indexPath+".buckets"]
		if !ok {
			d.fail("fsck/live", "%s: no bucket snapshot file after Close", where)
			return
		}
		live = SnapshotTable(sb)
	} else {
		tb := d.St.Index().VerifBuckets()
		live = make([]uint64, len(tb))
		for i, p := range tb {
			live[i] = uint64(p)
		}
	}
	lv := Fsck(fsckInput{Files: files, Primary: d.Cfg.Primary, Live: live})
	if len(lv.Errs) > 0 {
		d.fail("fsck/live", "%s: bucket table (closed=%v) inconsistent with files: %s", where, closed, strings.Join(lv.Errs, "; "))
		return
	}
	for b, raw := range lv.Lists {
		if !bytes.Equal(disk.Lists[b], raw) {
			d.fail("fsck/table-vs-rescan", "%s: bucket %d: live table and log rescan resolve to different record lists", where, b)
			return
		}
	}
}
