package harness

import (
	"encoding/json"
	"fmt"

	"verif/sim/simrt"
)

// StoreCfg is the store configuration of a plan.
type StoreCfg struct {
	Primary     string `json:"primary"` // "multihash" | "CID"
	Immutable   bool   `json:"immutable,omitempty"`
	Bits        uint8  `json:"bits"`
	IndexFile   uint32 `json:"ifile"`
	PrimaryFile uint32 `json:"pfile"`
	FileCache   int    `json:"fcache"`
	Burst       uint64 `json:"burst,omitempty"`    // 0 = default
	SyncMs      int    `json:"sync_ms,omitempty"`  // 0 = default (1s)
	GCMs        int64  `json:"gc_ms,omitempty"`    // 0 = GC disabled
	GCLimitMs   int64  `json:"gclim_ms,omitempty"` // 0 = default
	Flusher     bool   `json:"flusher,omitempty"`  // call Start()
	ShortKeys   bool   `json:"short_keys,omitempty"`
	SyncOnFlush bool   `json:"sync_on_flush,omitempty"` // fsync the three files as part of every flush
	// Aged > 0: the store does not start empty but in the state a long-lived
	// store reaches after GC has released its first Aged index and primary
	// files: headers whose first-file number is Aged and an empty file of that
	// number. Chosen so that file number * file-size limit is >= 2^32 (with the
	// default 1 GiB limits that is file 4; with 16-byte files, file 2^28).
	Aged int `json:"aged,omitempty"`
}

// Op is one generated operation.
type Op struct {
	K    string `json:"k"`
	Key  int    `json:"key,omitempty"`
	Alt  int    `json:"alt,omitempty"` // CID variant used for this call
	VLen int    `json:"vlen,omitempty"`
	VNil bool   `json:"vnil,omitempty"`
	VSeq int    `json:"vseq,omitempty"`
	A    int    `json:"a,omitempty"`
	B    int    `json:"b,omitempty"`
	S    string `json:"s,omitempty"`
}

func (o Op) String() string {
	switch o.K {
	case "put":
		return fmt.Sprintf("put(k%d/%d,len=%d,seq=%d)", o.Key, o.Alt, o.VLen, o.VSeq)
	case "get", "has", "size", "remove", "reput":
		return fmt.Sprintf("%s(k%d/%d)", o.K, o.Key, o.Alt)
	}
	s := o.K
	if o.A != 0 || o.B != 0 {
		s += fmt.Sprintf("(%d,%d)", o.A, o.B)
	}
	if o.S != "" {
		s += "[" + o.S + "]"
	}
	return s
}

// SimCfg describes the simulator settings of a plan.
type SimCfg struct {
	Strategy simrt.Strategy `json:"strategy"`
	MaxSteps int            `json:"max_steps,omitempty"`
	Latency  LatencyCfg     `json:"latency"`
	Quantum  int64          `json:"now_quantum,omitempty"`
	// preemption injection (simrt.Config.PreemptEvery / PreemptNs)
	PreemptEvery int   `json:"preempt_every,omitempty"`
	PreemptNs    int64 `json:"preempt_ns,omitempty"`
	// site-directed stalls (simrt.Config.SlowSite*); the salt is the plan seed
	SlowMod  int   `json:"slow_mod,omitempty"`
	SlowNs   int64 `json:"slow_ns,omitempty"`
	SlowCoin int   `json:"slow_coin,omitempty"`
	// per-operation jitter (simrt.Config.JitterNs)
	JitterNs int64 `json:"jitter_ns,omitempty"`
}

// LatencyCfg is the per-run disk latency model (ns).
type LatencyCfg struct {
	Kind    string `json:"kind,omitempty"` // "" (zero) | "const" | "perbyte" | "heavy"
	Base    int64  `json:"base,omitempty"`
	PerByte int64  `json:"per_byte,omitempty"`
	StallOp int    `json:"stall_op,omitempty"` // 1-based index of the op that stalls, 0 none
	StallNs int64  `json:"stall_ns,omitempty"`
	// StallEvery > 0: a pseudo-random one in StallEvery operations stalls for StallNs
	StallEvery int `json:"stall_every,omitempty"`
}

// Plan is the explicit, shrinkable description of one run (minus the tape).
type Plan struct {
	Prop    string    `json:"prop"`
	Engine  string    `json:"engine"`
	Seed    uint64    `json:"seed"`
	Cfg     StoreCfg  `json:"cfg"`
	Keys    []KeySpec `json:"keys"`
	Ops     []Op      `json:"ops,omitempty"`
	Clients [][]Op    `json:"clients,omitempty"`
	Sim     SimCfg    `json:"sim"`
	// engine specific
	X  map[string]int    `json:"x,omitempty"`
	XS map[string]string `json:"xs,omitempty"`
	// steering rules (known findings) disabled for this run
	NoSteer []string `json:"no_steer,omitempty"`
}

func (p *Plan) Clone() *Plan {
	b, _ := json.Marshal(p)
	var q Plan
	json.Unmarshal(b, &q)
	return &q
}

func (p *Plan) x(name string, def int) int {
	if v, ok := p.X[name]; ok {
		return v
	}
	return def
}

var fileSizes = []uint32{16, 32, 64, 100, 300, 1024, 4096, 65536, 1 << 30}

// genCfg draws a store configuration (swarm style).
func genCfg(r *simrt.Rand, thorough bool) StoreCfg {
	c := StoreCfg{Primary: "multihash"}
	if r.Chance(0.3) {
		c.Primary = "CID"
	}
	c.Immutable = r.Chance(0.3)
	bits := []uint8{8, 9, 12, 16, 17, 20}
	wts := []int{45, 10, 15, 15, 8, 4}
	c.Bits = bits[r.Weighted(wts)]
	if thorough && r.Chance(0.003) {
		c.Bits = 24
	}
	c.IndexFile = fileSizes[r.Weighted([]int{10, 10, 10, 10, 10, 10, 8, 6, 20})]
	c.PrimaryFile = fileSizes[r.Weighted([]int{10, 10, 10, 10, 10, 10, 8, 6, 20})]
	c.FileCache = []int{0, 1, 2, 512}[r.Weighted([]int{2, 2, 2, 4})]
	c.ShortKeys = r.Chance(0.1)
	c.SyncOnFlush = r.Chance(0.15)
	if r.Chance(0.15) {
		// first-file number large enough that file number * file-size limit no
		// longer fits 32 bits for either kind of file
		m := c.IndexFile
		if c.PrimaryFile < m {
			m = c.PrimaryFile
		}
		c.Aged = int((uint64(1)<<32)/uint64(m)) + r.Intn(3)
	}
	return c
}

// valLen draws a value length: 0, 1, tens of bytes, occasionally > 64 KiB.
func valLen(r *simrt.Rand, allowBig bool) (int, bool) {
	switch r.Weighted([]int{12, 8, 60, 15, 5}) {
	case 0:
		return 0, r.Chance(0.5)
	case 1:
		return 1 + r.Intn(3), false
	case 2:
		return 4 + r.Intn(60), false
	case 3:
		return 64 + r.Intn(400), false
	default:
		if allowBig && r.Chance(0.3) {
			return 65536 + r.Intn(5000), false
		}
		return 500 + r.Intn(3000), false
	}
}

type opMix struct {
	put, get, has, size, remove, flush, iter, reput int
}

// genSeqOps draws a history of n store calls over nk keys.
func genSeqOps(r *simrt.Rand, n, nk int, mix opMix, cid bool, vseq *int) []Op {
	w := []int{mix.put, mix.get, mix.has, mix.size, mix.remove, mix.flush, mix.iter, mix.reput}
	kinds := []string{"put", "get", "has", "size", "remove", "flush", "iter", "reput"}
	var ops []Op
	for i := 0; i < n; i++ {
		k := kinds[r.Weighted(w)]
		op := Op{K: k}
		switch k {
		case "flush", "iter":
		default:
			op.Key = r.Intn(nk)
			if cid && r.Chance(0.25) {
				op.Alt = r.Intn(4)
			}
		}
		if k == "put" {
			*vseq++
			op.VSeq = *vseq
			op.VLen, op.VNil = valLen(r, true)
		}
		ops = append(ops, op)
	}
	return ops
}

func genSim(r *simrt.Rand) SimCfg {
	var s SimCfg
	switch r.Intn(5) {
	case 0:
		s.Strategy = simrt.Strategy{Kind: "random"}
	case 1:
		s.Strategy = simrt.Strategy{Kind: "sticky", Stick: []float64{0.5, 0.9, 0.99}[r.Intn(3)]}
	case 2:
		s.Strategy = simrt.Strategy{Kind: "pct", Depth: 1 + r.Intn(3), Horizon: 200 + r.Intn(3000)}
	case 3:
		s.Strategy = simrt.Strategy{Kind: "rr", Quantum: 1 + r.Intn(8)}
	default:
		s.Strategy = simrt.Strategy{Kind: "sticky", Stick: 0.8}
	}
	if r.Chance(0.6) {
		// a goroutine can be descheduled for a long time at any point
		s.PreemptEvery = 40 + r.Intn(400)
		s.PreemptNs = int64(200+r.Intn(30000)) * 1000
	}
	switch {
	case r.Chance(0.12):
		// every lock, file and clock operation takes a random amount of simulated
		// time: all tasks advance at comparable speeds on the simulated clock
		s.PreemptEvery, s.PreemptNs = 0, 0
		s.JitterNs = int64(5+r.Intn(300)) * 1000
	case r.Chance(0.15):
		// tasks are held up repeatedly at a per-run subset of call sites
		s.SlowMod = 4 + r.Intn(30)
		s.SlowCoin = []int{2, 3, 4, 8}[r.Intn(4)]
		s.SlowNs = int64(200+r.Intn(20000)) * 1000
	}
	return s
}

func genLatency(r *simrt.Rand) LatencyCfg {
	switch r.Intn(4) {
	case 0:
		return LatencyCfg{}
	case 1:
		return LatencyCfg{Kind: "const", Base: int64(1000 * (1 + r.Intn(200)))}
	case 2:
		return LatencyCfg{Kind: "perbyte", Base: int64(1000 * (1 + r.Intn(50))), PerByte: int64(1 + r.Intn(100))}
	default:
		return LatencyCfg{Kind: "heavy", Base: int64(1000 * (1 + r.Intn(100)))}
	}
}
