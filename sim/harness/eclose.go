package harness

import (
	"context"
	"errors"
	"fmt"
	"os"
	"strings"
	"syscall"
	"time"

	"github.com/ipld/go-storethehash/store"
	"github.com/ipld/go-storethehash/store/types"

	"verif/sim/simos"
	"verif/sim/simrt"
	"verif/sim/simsync"
)

// C17: Close stops all background activity and releases every resource; a
// failed open releases everything; open/close cycles do not accumulate tasks or
// handles.

func init() {
	engines["close"] = runClose
	generators["C17"] = genC17
}

func genC17(seed uint64, tier string) *Plan {
	r := simrt.NewRand(seed)
	switch r.Weighted([]int{55, 30, 15}) {
	case 0:
		// concurrent workload ending in Close while background work is in flight
		p := genC06(seed^0x1717, tier)
		p.Engine = "close"
		p.X["mode"] = 0
		p.Cfg.Flusher = true
		p.Cfg.GCMs = int64(5 + r.Intn(60))
		p.Cfg.GCLimitMs = int64([]int{0, 1, 5, 50}[r.Intn(4)])
		// the store's own collectors run: no explicit cycles next to them
		for ci := range p.Clients {
			var keep []Op
			for _, o := range p.Clients[ci] {
				if o.K != "igc" && o.K != "pgc" {
					keep = append(keep, o)
				}
			}
			p.Clients[ci] = keep
		}
		if p.Sim.Latency.Kind == "" {
			p.Sim.Latency = LatencyCfg{Kind: "const", Base: int64(1000 * (5 + r.Intn(200)))}
		}
		p.Sim.Latency.StallOp = 30 + r.Intn(400)
		p.Sim.Latency.StallNs = int64(1+r.Intn(80)) * int64(time.Millisecond)
		p.X["linger_us"] = r.Intn(120000) // time between the last client and Close
		p.Sim.MaxSteps = 80000
		return p
	case 1:
		// failing opens
		p := genC04(seed^0x1718, tier)
		p.Engine = "close"
		p.X["mode"] = 1
		p.Ops = dropGCOps(p.Ops)
		p.X["fail"] = r.Intn(6)
		p.X["fail_at"] = r.Intn(40)
		p.Cfg.GCMs = int64(10 + r.Intn(100))
		p.Cfg.Flusher = true
		return p
	default:
		// repeated open/close cycles
		p := genC04(seed^0x1719, tier)
		p.Engine = "close"
		p.X["mode"] = 2
		p.Ops = dropGCOps(p.Ops)
		p.X["cycles"] = 20 + r.Intn(31)
		p.Cfg.GCMs = int64(10 + r.Intn(100))
		p.Cfg.Flusher = true
		if len(p.Ops) > 25 {
			p.Ops = p.Ops[:25]
		}
		return p
	}
}

func dropGCOps(ops []Op) []Op {
	var keep []Op
	for _, o := range ops {
		if o.K != "igc" && o.K != "pgc" {
			keep = append(keep, o)
		}
	}
	return keep
}

// quiesce advances the simulated clock past several intervals and reports what
// is still alive.
func quiesceCheck(d *Driver, what string, baseTasks int, mutBefore int) {
	w := simrt.Current()
	fs := fsOf()
	maxInt := int64(d.Cfg.SyncMs) * int64(time.Millisecond)
	if g := d.Cfg.GCMs * int64(time.Millisecond); g > maxInt && g < int64(time.Hour) {
		maxInt = g
	}
	if maxInt <= 0 {
		maxInt = int64(time.Second)
	}
	simrt.Sleep(3*maxInt + int64(time.Millisecond))
	var leaked []string
	for _, t := range w.LiveTasks() {
		if t.ID == 0 {
			continue
		}
		k, _ := t.Pending()
		leaked = append(leaked, fmt.Sprintf("task %d (%s) parked at %s", t.ID, t.Name, k))
	}
	if len(leaked) > baseTasks {
		d.fail("close/task-leak", "%s: goroutines started by the store are still alive: %s", what, strings.Join(leaked, "; "))
		return
	}
	if hs := fs.OpenHandleInfo(); len(hs) > 0 {
		d.fail("close/handle-leak", "%s: file handles still open: %s", what, strings.Join(hs, "; "))
		return
	}
	if fs.MutCount != mutBefore {
		var ops []string
		for _, r := range fs.Log {
			if r.Mut >= mutBefore {
				ops = append(ops, fmt.Sprintf("%s %s by task %d", r.Kind, r.Path, r.Task))
			}
		}
		d.fail("close/write-after-close", "%s: %d mutating file operations were issued afterwards: %s", what, fs.MutCount-mutBefore, strings.Join(ops, "; "))
	}
}

func runClose(p *Plan, tape *simrt.Tape, opt RunOpt) *RunOut {
	out := newOut()
	fs := newStoreFS()
	fs.KeepLog = true
	d := NewDriver(p)
	d.staticProbes()
	cs := &concState{p: p, d: d, hists: make([][]HistOp, len(p.Clients)+1)}
	mode := p.x("mode", 0)
	var injectAt = -1
	var injected bool
	fs.Hook = func(f *simos.FS, rec *simos.OpRec, data []byte) simos.Action {
		if injectAt >= 0 && !injected && (rec.Kind == simos.OpOpen || rec.Kind == simos.OpRead || rec.Kind == simos.OpReadAt || rec.Kind == simos.OpCreate) {
			if injectAt == 0 {
				injected = true
				return simos.Action{Err: syscall.EIO}
			}
			injectAt--
		}
		return simos.Action{}
	}
	w, res := world(p, tape, fs, opt, nil, func() {
		switch mode {
		case 0:
			closeConc(p, d, cs)
		case 1:
			closeFailOpen(p, d, func(n int) { injectAt = n; injected = false }, func() bool { return injected }, out)
		default:
			closeCycles(p, d)
		}
	})
	d.fileProbes(fs)
	out.addFS(fs)
	out.FinalFS = fs
	out.addDriver(d)
	viol := cs.viol
	if viol == nil {
		viol = d.Viol
	}
	finish(out, w, res, p, viol, opt)
	if injected {
		out.Faults["eio-open"]++
	}
	out.Sample = fmt.Sprintf("mode=%d cfg=%+v x=%v", mode, p.Cfg, p.X)
	return out
}

// closeConc: concurrent workload, then Close while flusher and collectors are
// at arbitrary points.
func closeConc(p *Plan, d *Driver, cs *concState) {
	if err := d.Open(); err != nil {
		cs.fail("open-error", "OpenStore failed: %v", err)
		return
	}
	var wg simsync.WaitGroup
	for ci := range p.Clients {
		ci := ci
		wg.Add(1)
		simrt.Go(fmt.Sprintf("client%d", ci), func() {
			defer wg.Done()
			cs.client(ci, p.Clients[ci])
		})
	}
	wg.Wait()
	if cs.viol != nil {
		cs.viol = nil // call errors are C05/C06's business
		d.Probes["other-oracle-failed"]++
		return
	}
	// what the store contains now (sequential read)
	final := map[int]Res{}
	for ki := range p.Keys {
		final[ki] = d.Call(&Op{K: "get", Key: ki})
	}
	// more unflushed work so that Close has something to do
	for ki := range p.Keys {
		if ki%2 == 0 && !p.Cfg.Immutable {
			op := Op{K: "put", Key: ki, VSeq: 900000 + ki, VLen: 20}
			r := d.Call(&op)
			if r.Err == "" {
				final[ki] = Res{Found: true, Val: mkValue(op.VSeq, op.VLen, false)}
			}
		}
	}
	simrt.Sleep(int64(p.x("linger_us", 0)) * 1000)
	// probes: is background work in flight at the moment Close is called?
	for _, t := range simrt.Current().LiveTasks() {
		k, _ := t.Pending()
		if t.ID != 0 && k != "" && !strings.HasPrefix(k, "select@") {
			d.Probes["close-during-background-work"]++
			break
		}
	}
	if os.Getenv("VERIF_DEBUG_DUMP") != "" {
		fmt.Println("=== before Close ===")
		for b, pos := range d.St.Index().VerifBuckets() {
			if pos != 0 {
				fmt.Printf("bucket %d -> %d\n", b, pos)
			}
		}
		DumpFS(fsOf(), p)
	}
	if err := d.St.Close(); err != nil {
		d.fail("close/close-error", "Close returned %v", err)
		return
	}
	if os.Getenv("VERIF_DEBUG_DUMP") != "" {
		fmt.Println("=== after Close ===")
		DumpFS(fsOf(), p)
	}
	d.Probes["closed"]++
	quiesceCheck(d, "after Close returned", 0, fsOf().MutCount)
	if d.Viol != nil {
		return
	}
	// reopen: contents as they were (quiet configuration: this part is about what
	// Close left on disk, not about concurrency in the reopened store)
	quiet := d.Cfg
	quiet.GCMs = 0
	quiet.Flusher = false
	if err := d.OpenWith(quiet); err != nil {
		d.fail("close/reopen-error", "reopen after Close failed: %v", err)
		return
	}
	for ki := range p.Keys {
		r := d.Call(&Op{K: "get", Key: ki})
		want := final[ki]
		if r.Err != "" || r.Found != want.Found || (r.Found && string(r.Val) != string(want.Val)) {
			d.fail("close/reopen-content", "key k%d after reopen: found=%v val=%s err=%q; before Close: found=%v val=%s", ki, r.Found, short(r.Val), r.Err, want.Found, short(want.Val))
			return
		}
	}
	if err := d.St.Close(); err != nil {
		d.fail("close/close-error", "second Close returned %v", err)
		return
	}
	quiesceCheck(d, "after the second Close returned", 0, fsOf().MutCount)
}

// closeFailOpen: build a store, close it, then attempt opens that must fail and
// must release everything they acquired.
func closeFailOpen(p *Plan, d *Driver, arm func(int), fired func() bool, out *RunOut) {
	if err := d.Open(); err != nil {
		d.fail("open-error", "OpenStore failed: %v", err)
		return
	}
	for i := range p.Ops {
		if p.Ops[i].K == "reopen" {
			continue
		}
		d.OpIdx = i
		d.Exec(&p.Ops[i])
		if d.Viol != nil {
			d.Viol = nil
			d.Probes["other-oracle-failed"]++
			return
		}
	}
	if err := d.St.Close(); err != nil {
		d.fail("close/close-error", "Close returned %v", err)
		return
	}
	quiesceCheck(d, "after Close returned", 0, fsOf().MutCount)
	if d.Viol != nil {
		return
	}
	fs := fsOf()
	bad := d.Cfg
	what := ""
	var wantErr func(error) bool
	switch p.x("fail", 0) {
	case 0:
		bad.IndexFile = d.Cfg.IndexFile + 1
		if bad.IndexFile > 1<<30 {
			bad.IndexFile = 1 << 29
		}
		what = "index file-size mismatch"
		wantErr = func(err error) bool { var e types.ErrIndexWrongFileSize; return errors.As(err, &e) }
	case 1:
		if d.Cfg.Primary == "CID" {
			return
		}
		bad.PrimaryFile = d.Cfg.PrimaryFile + 1
		if bad.PrimaryFile > 1<<30 {
			bad.PrimaryFile = 1 << 29
		}
		what = "primary file-size mismatch"
		wantErr = func(err error) bool { var e types.ErrPrimaryWrongFileSize; return errors.As(err, &e) }
	case 2:
		what = "unsupported primary type"
	case 3:
		// invalid JSON in the index header
		fs.WriteFileDirect(indexPath+".info", []byte("{not json"))
		what = "index header holds invalid JSON"
	case 4:
		// unreadable file: the n-th open/read of the opening store fails with EIO
		arm(p.x("fail_at", 0))
		what = fmt.Sprintf("EIO on the %d-th open/read issued by OpenStore", p.x("fail_at", 0))
	default:
		// bit-size change whose translation fails: EIO somewhere inside it
		if bad.Bits == 8 {
			bad.Bits = 9
		} else {
			bad.Bits = 8
		}
		arm(3 + p.x("fail_at", 0))
		what = fmt.Sprintf("bit-size change %d->%d with EIO on an open/read inside the translation", d.Cfg.Bits, bad.Bits)
	}
	mutBefore := fs.MutCount
	var err error
	if p.x("fail", 0) == 2 {
		_, err = store.OpenStore(context.Background(), "no-such-primary", dataPath, indexPath, false, bad.Options()...)
	} else {
		err = d.OpenWith(bad)
	}
	arm(-1)
	if err == nil {
		// the injected fault did not hit (or translation succeeded): a normal open
		d.Probes["open-did-not-fail"]++
		if cerr := d.St.Close(); cerr != nil {
			d.fail("close/close-error", "Close returned %v", cerr)
		}
		return
	}
	d.Probes["failed-open"]++
	if wantErr != nil && !wantErr(err) {
		d.fail("close/wrong-open-error", "%s: OpenStore returned %v", what, err)
		return
	}
	_ = mutBefore
	quiesceCheck(d, "after the failed open ("+what+": "+err.Error()+")", 0, fs.MutCount)
}

// closeCycles: many open/close cycles; task and handle counts return to the
// baseline every time.
func closeCycles(p *Plan, d *Driver) {
	n := p.x("cycles", 20)
	opi := 0
	for c := 0; c < n; c++ {
		if err := d.Open(); err != nil {
			d.fail("close/reopen-error", "open in cycle %d failed: %v", c, err)
			return
		}
		// a little work in each cycle
		for k := 0; k < 2 && opi < len(p.Ops); k++ {
			if p.Ops[opi].K != "reopen" {
				d.Exec(&p.Ops[opi])
			}
			opi++
			if d.Viol != nil {
				d.Viol = nil
				d.Probes["other-oracle-failed"]++
				return
			}
		}
		if c%3 == 0 {
			simrt.Sleep(int64(d.Cfg.GCMs) * int64(time.Millisecond) / 2)
		}
		if err := d.St.Close(); err != nil {
			d.fail("close/close-error", "Close in cycle %d returned %v", c, err)
			return
		}
		d.Probes["open-close-cycle"]++
		w := simrt.Current()
		live := 0
		for _, t := range w.LiveTasks() {
			if t.ID != 0 {
				live++
			}
		}
		if live != 0 {
			quiesceCheck(d, fmt.Sprintf("after Close of cycle %d", c), 0, fsOf().MutCount)
			if d.Viol != nil {
				return
			}
		}
		if hs := fsOf().OpenHandleInfo(); len(hs) > 0 {
			d.fail("close/handle-leak", "after Close of cycle %d: file handles still open: %s", c, strings.Join(hs, "; "))
			return
		}
	}
	quiesceCheck(d, "after the last cycle", 0, fsOf().MutCount)
}
