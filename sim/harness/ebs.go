package harness

import (
	"bytes"
	"context"
	"errors"
	"fmt"

	blocks "github.com/ipfs/go-block-format"
	"github.com/ipfs/go-cid"
	ipld "github.com/ipfs/go-ipld-format"
	storethehash "github.com/ipld/go-storethehash"
	"github.com/ipld/go-storethehash/store"
	mh "github.com/multiformats/go-multihash"

	"verif/sim/simrt"
)

// C15: the blockstore adapter honours the blockstore contract.

func init() {
	engines["bs"] = runBS
	generators["C15"] = genC15
}

func genC15(seed uint64, tier string) *Plan {
	r := simrt.NewRand(seed)
	p := &Plan{Engine: "bs", X: map[string]int{}}
	p.Cfg = StoreCfg{Primary: "multihash", Bits: []uint8{8, 8, 12, 24}[r.Intn(4)], IndexFile: fileSizes[r.Intn(len(fileSizes))], PrimaryFile: fileSizes[r.Intn(len(fileSizes))], FileCache: []int{0, 1, 512}[r.Intn(3)]}
	if tier != "thorough" && p.Cfg.Bits == 24 {
		p.Cfg.Bits = 16
	}
	nb := 2 + r.Intn(6)
	p.X["blocks"] = nb
	n := 5 + r.Intn(36)
	for i := 0; i < n; i++ {
		op := Op{Key: r.Intn(nb), Alt: r.Intn(4)}
		switch r.Weighted([]int{25, 8, 22, 8, 8, 10, 5, 6, 4, 4}) {
		case 0:
			op.K = "put"
		case 1:
			op.K = "putmany"
			op.A = 1 + r.Intn(3)
		case 2:
			op.K = "get"
		case 3:
			op.K = "has"
		case 4:
			op.K = "size"
		case 5:
			op.K = "del"
		case 6:
			op.K = "hor"
			op.A = r.Intn(2)
		case 7:
			op.K = "reopen"
		case 8:
			op.K = "flip"
		default:
			op.K = "putbad" // block whose CID does not match its data
		}
		if r.Chance(0.1) && op.K != "hor" && op.K != "reopen" && op.K != "flip" {
			op.B = 1 // cancelled context
		}
		p.Ops = append(p.Ops, op)
	}
	return p
}

// bsBlock describes the i-th block of a plan: data and hash function.
func bsBlockData(seed uint64, i int) ([]byte, uint64) {
	r := simrt.NewRand(seed*131 + uint64(i))
	var n int
	switch r.Weighted([]int{10, 10, 60, 15, 5}) {
	case 0:
		n = 0
	case 1:
		n = 1
	case 2:
		n = 20 + r.Intn(200)
	case 3:
		n = 300 + r.Intn(3000)
	default:
		n = 65536 + r.Intn(4000)
	}
	data := make([]byte, n)
	for j := range data {
		data[j] = byte(r.Intn(256))
	}
	if n == 0 && r.Chance(0.5) {
		data = nil
	}
	code := []uint64{mh.SHA2_256, mh.SHA2_256, mh.SHA2_512, mh.BLAKE2B_MIN + 31}[r.Intn(4)]
	if n >= 4 && n <= 220 && r.Chance(0.2) {
		// identity "hash": the digest is the data itself (inlined blocks). Only
		// for 4..220 bytes: the index needs 4 key bytes and stores at most 255
		code = mh.IDENTITY
	}
	return data, code
}

// bsCid returns the CID of variant alt over the given multihash.
func bsCid(h mh.Multihash, code uint64, alt int) cid.Cid {
	switch alt {
	case 3:
		if code == mh.SHA2_256 {
			return cid.NewCidV0(h)
		}
		return cid.NewCidV1(cid.Raw, h)
	case 1:
		return cid.NewCidV1(cid.DagProtobuf, h)
	case 2:
		return cid.NewCidV1(cid.DagCBOR, h)
	default:
		return cid.NewCidV1(cid.Raw, h)
	}
}

type bsDriver struct {
	p      *Plan
	bs     *storethehash.HashedBlockstore
	model  map[string][]byte // multihash -> stored bytes
	hor    bool
	viol   *Violation
	opIdx  int
	probes map[string]int
}

func (d *bsDriver) fail(class, format string, a ...any) {
	if d.viol == nil {
		d.viol = &Violation{Prop: d.p.Prop, Class: class, Msg: fmt.Sprintf(format, a...), OpIdx: d.opIdx}
	}
}

func (d *bsDriver) open() error {
	c := d.p.Cfg
	opts := []store.Option{store.IndexBitSize(c.Bits), store.IndexFileSize(c.IndexFile), store.PrimaryFileSize(c.PrimaryFile), store.FileCacheSize(c.FileCache), store.GCInterval(0)}
	bs, err := storethehash.OpenHashedBlockstore(context.Background(), indexPath, dataPath, opts...)
	if err != nil {
		return err
	}
	d.bs = bs
	d.hor = false
	return nil
}

func runBS(p *Plan, tape *simrt.Tape, opt RunOpt) *RunOut {
	out := newOut()
	fs := newStoreFS()
	d := &bsDriver{p: p, model: map[string][]byte{}, probes: map[string]int{}}
	nb := p.x("blocks", 2)
	type blk struct {
		data []byte
		code uint64
		h    mh.Multihash
	}
	bl := make([]blk, nb)
	for i := range bl {
		data, code := bsBlockData(p.Seed, i)
		h, err := mh.Sum(data, code, -1)
		if err != nil {
			panic(err)
		}
		bl[i] = blk{data, code, h}
	}
	cancelled, cancel := context.WithCancel(context.Background())
	cancel()
	w, res := world(p, tape, fs, opt, nil, func() {
		if err := d.open(); err != nil {
			d.fail("open-error", "OpenHashedBlockstore failed: %v", err)
			return
		}
		for i := range p.Ops {
			d.opIdx = i
			op := &p.Ops[i]
			b := bl[op.Key%nb]
			c := bsCid(b.h, b.code, op.Alt)
			ctx := context.Background()
			var before uint64
			if op.B == 1 {
				ctx = cancelled
				before = fsOf().Snapshot().Hash()
				d.probes["cancelled-call"]++
			}
			checkCancelled := func(err error) bool {
				if op.B != 1 {
					return false
				}
				if !errors.Is(err, context.Canceled) {
					d.fail("bs/cancel-not-honoured", "%v with a cancelled context returned %v, want context.Canceled", *op, err)
					return true
				}
				if fsOf().Snapshot().Hash() != before {
					d.fail("bs/cancel-side-effect", "%v with a cancelled context changed files", *op)
				}
				return true
			}
			key := string(b.h)
			switch op.K {
			case "put", "putbad":
				data := b.data
				if op.K == "putbad" {
					data = append([]byte("not the hashed bytes "), byte(i))
					d.probes["mismatching-block"]++
				}
				blkv, err := blocks.NewBlockWithCid(data, c)
				if err != nil {
					panic(err)
				}
				err = d.bs.Put(ctx, blkv)
				if checkCancelled(err) {
					break
				}
				if err != nil {
					d.fail("bs/put-error", "%v returned %v", *op, err)
					break
				}
				if _, ok := d.model[key]; !ok {
					d.model[key] = data
				}
			case "putmany":
				var bs []blocks.Block
				var keys []string
				var datas [][]byte
				for k := 0; k < op.A; k++ {
					bb := bl[(op.Key+k)%nb]
					blkv, _ := blocks.NewBlockWithCid(bb.data, bsCid(bb.h, bb.code, (op.Alt+k)%4))
					bs = append(bs, blkv)
					keys = append(keys, string(bb.h))
					datas = append(datas, bb.data)
				}
				err := d.bs.PutMany(ctx, bs)
				if checkCancelled(err) {
					break
				}
				if err != nil {
					d.fail("bs/put-error", "%v returned %v", *op, err)
					break
				}
				for k := range keys {
					if _, ok := d.model[keys[k]]; !ok {
						d.model[keys[k]] = datas[k]
					}
				}
			case "get":
				got, err := d.bs.Get(ctx, c)
				if checkCancelled(err) {
					break
				}
				want, present := d.model[key]
				if !present {
					if !ipld.IsNotFound(err) {
						d.fail("bs/not-found", "%v of an absent block returned (%v, %v), want the IPLD not-found error", *op, got, err)
					}
					break
				}
				matches := bytes.Equal(want, b.data)
				if d.hor && !matches {
					if !errors.Is(err, blocks.ErrWrongHash) {
						d.fail("bs/hash-on-read", "%v with hash-on-read enabled on bytes that do not hash to the CID returned err=%v, want ErrWrongHash", *op, err)
					}
					d.probes["hash-on-read-rejected"]++
					break
				}
				if err != nil {
					d.fail("bs/get-error", "%v returned %v (hash-on-read=%v, stored bytes match=%v)", *op, err, d.hor, matches)
					break
				}
				if !got.Cid().Equals(c) || !bytes.Equal(got.RawData(), want) {
					d.fail("bs/get-value", "%v returned cid=%v data=%s, want cid=%v data=%s", *op, got.Cid(), short(got.RawData()), c, short(want))
				}
			case "has":
				got, err := d.bs.Has(ctx, c)
				if checkCancelled(err) {
					break
				}
				_, present := d.model[key]
				if err != nil || got != present {
					d.fail("bs/has", "%v = (%v, %v), model present=%v", *op, got, err, present)
				}
			case "size":
				got, err := d.bs.GetSize(ctx, c)
				if checkCancelled(err) {
					break
				}
				want, present := d.model[key]
				if !present {
					if !ipld.IsNotFound(err) {
						d.fail("bs/not-found", "%v of an absent block returned (%v, %v), want the IPLD not-found error", *op, got, err)
					}
					break
				}
				if err != nil || got != len(want) {
					d.fail("bs/size", "%v = (%d, %v), stored block has %d bytes", *op, got, err, len(want))
				}
			case "del":
				err := d.bs.DeleteBlock(ctx, c)
				if checkCancelled(err) {
					break
				}
				if err != nil {
					d.fail("bs/delete-error", "%v returned %v", *op, err)
					break
				}
				delete(d.model, key)
			case "hor":
				d.bs.HashOnRead(op.A == 1)
				d.hor = op.A == 1
				d.probes["hash-on-read-set"]++
			case "reopen":
				d.bs.Close()
				if err := d.open(); err != nil {
					d.fail("bs/reopen-error", "reopen failed: %v", err)
				}
			case "flip":
				// close, flip one stored byte of the block's value on disk, reopen
				want, present := d.model[key]
				if !present || len(want) < 8 {
					break
				}
				if b.code == mh.IDENTITY {
					// the key of an identity block is its data: the same bytes
					// also sit in the record's key, so the fault would corrupt
					// the key (a different fault: the block becomes unfindable)
					d.probes["flip-skipped-identity"]++
					break
				}
				d.bs.Close()
				if d.flipStored(want) {
					nv := append([]byte(nil), want...)
					nv[len(nv)/2] ^= 0x40
					d.model[key] = nv
					d.probes["flip"]++
				}
				if err := d.open(); err != nil {
					d.fail("bs/reopen-error", "reopen failed: %v", err)
				}
			}
			if d.viol != nil {
				return
			}
		}
		d.bs.Close()
	})
	out.addFS(fs)
	out.FinalFS = fs
	out.addProbes(d.probes)
	if d.probes["flip"] > 0 {
		out.Faults["flip"] += d.probes["flip"]
	}
	if d.probes["cancelled-call"] > 0 {
		out.Faults["cancel"] += d.probes["cancelled-call"]
	}
	finish(out, w, res, p, d.viol, opt)
	out.Sample = fmt.Sprintf("cfg=%+v blocks=%d ops=%v", p.Cfg, nb, opsString(p.Ops, 14))
	return out
}

// flipStored flips one byte in the middle of the stored value on disk.
func (d *bsDriver) flipStored(val []byte) bool {
	fs := fsOf()
	files := fs.Files()
	found := false
	for _, name := range fs.List() {
		data := files[name]
		if len(name) < len(dataPath)+2 || name[:len(dataPath)+1] != dataPath+"." || !isNumSuffix(name) {
			continue
		}
		// flip every copy (older, deleted copies of the record may exist too)
		var nd []byte
		for from := 0; ; {
			i := bytes.Index(data[from:], val)
			if i < 0 {
				break
			}
			if nd == nil {
				nd = append([]byte(nil), data...)
			}
			nd[from+i+len(val)/2] ^= 0x40
			from += i + len(val)
		}
		if nd != nil {
			fs.WriteFileDirect(name, nd)
			found = true
		}
	}
	return found
}
