package harness

import (
	"bytes"
	"context"
	"errors"
	"fmt"
	"io"
	"sort"
	"time"
	"verif/sim/simrt"

	"github.com/ipld/go-storethehash/store"
	mhprimary "github.com/ipld/go-storethehash/store/primary/multihash"
	"github.com/ipld/go-storethehash/store/types"
)

const (
	simDir    = "/s"
	indexDir  = "/s/i"
	dataDir   = "/s/d"
	indexPath = "/s/i/index"
	dataPath  = "/s/d/data"
)

// Violation is a failed oracle check.
type Violation struct {
	Prop  string `json:"prop"`
	Class string `json:"class"` // oracle + category; shrinking preserves it
	Msg   string `json:"msg"`
	OpIdx int    `json:"op_idx"`
}

func (v *Violation) Error() string { return fmt.Sprintf("[%s] %s (op %d)", v.Class, v.Msg, v.OpIdx) }

// Res is the observable result of one store call.
type Res struct {
	Err   string
	Found bool
	Val   []byte
	Size  int
	Items []Item // iteration
}

// Item is one iterated (key, value) pair.
type Item struct {
	Key []byte
	Val []byte
}

// mval is the model's view of one key.
type mval struct {
	present bool
	key     []byte // stored key bytes
	val     []byte
}

// Model is the reference map: digest -> (stored key bytes, value).
type Model struct {
	m map[string]mval
}

func NewModel() *Model { return &Model{m: map[string]mval{}} }

func (m *Model) Get(d []byte) mval { return m.m[string(d)] }
func (m *Model) Set(d []byte, v mval) {
	if !v.present {
		delete(m.m, string(d))
		return
	}
	m.m[string(d)] = v
}
func (m *Model) Len() int { return len(m.m) }
func (m *Model) Digests() []string {
	ks := make([]string, 0, len(m.m))
	for k := range m.m {
		ks = append(ks, k)
	}
	sort.Strings(ks)
	return ks
}
func (m *Model) Clone() *Model {
	c := NewModel()
	for k, v := range m.m {
		c.m[k] = v
	}
	return c
}

// Driver executes plan operations against a store inside the simulated world.
type Driver struct {
	P     *Plan
	Cfg   StoreCfg
	St    *store.Store
	Model *Model
	Viol  *Violation
	OpIdx int
	// probes
	Probes map[string]int
	// crash admissibility tracking (nil unless the engine needs it)
	Adm *Adm
	// FsckOn: run the fsck oracle at quiescent points
	FsckOn bool
	// GCErrFatal: a GC cycle returning an error is a violation (C11 only; an
	// error is not a content change)
	GCErrFatal bool
	// Ledger: freelist exactly-once oracle (C13)
	Ledger *Ledger
	// counters written from client tasks: fixed arrays, never maps (the map
	// runtime reports to the race detector even from uninstrumented code)
	cnames  [32]string
	ccounts [32]int
	cn      int
}

func NewDriver(p *Plan) *Driver {
	return &Driver{P: p, Cfg: p.Cfg, Model: NewModel(), Probes: map[string]int{}}
}

func (d *Driver) fail(class, format string, args ...any) {
	if d.Viol == nil {
		d.Viol = &Violation{Prop: d.P.Prop, Class: class, Msg: fmt.Sprintf(format, args...), OpIdx: d.OpIdx}
	}
}

// Options converts the configuration to store options.
func (c StoreCfg) Options() []store.Option {
	opts := []store.Option{
		store.GCInterval(time.Duration(c.GCMs) * time.Millisecond),
	}
	if c.Bits != 24 {
		opts = append(opts, store.IndexBitSize(c.Bits))
	}
	// a value equal to the documented default is configured by leaving the
	// option out, as callers do: the defaults the store fills in are then part
	// of what is exercised (1 GiB file limits, 512 cached files, 24 bits)
	if c.IndexFile != 1<<30 {
		opts = append(opts, store.IndexFileSize(c.IndexFile))
	}
	if c.PrimaryFile != 1<<30 {
		opts = append(opts, store.PrimaryFileSize(c.PrimaryFile))
	}
	if c.FileCache != 512 {
		opts = append(opts, store.FileCacheSize(c.FileCache))
	}
	if c.GCLimitMs != 0 {
		opts = append(opts, store.GCTimeLimit(time.Duration(c.GCLimitMs)*time.Millisecond))
	}
	if c.Burst != 0 {
		opts = append(opts, store.BurstRate(c.Burst))
	}
	if c.SyncMs != 0 {
		opts = append(opts, store.SyncInterval(time.Duration(c.SyncMs)*time.Millisecond))
	}
	if c.SyncOnFlush {
		opts = append(opts, store.SyncOnFlush(true))
	}
	return opts
}

// Open opens the store with the driver's configuration.
func (d *Driver) Open() error {
	return d.OpenWith(d.Cfg)
}

func (d *Driver) OpenWith(c StoreCfg) error {
	return d.OpenWithCtx(context.Background(), c)
}

// ageStore writes, into an empty directory, the state of a store whose first
// n index and primary files were released by GC (see StoreCfg.Aged).
func ageStore(c StoreCfg) {
	if c.Aged <= 0 {
		return
	}
	// everything is formatted here, on the task side; the writes themselves run
	// on the scheduler goroutine, which owns the file system's state (and must
	// not use fmt: its synchronisation is hidden from the race detector, and
	// fmt's printer pool would hand objects between it and the tasks)
	type wf struct {
		path string
		data []byte
	}
	ws := []wf{
		{indexPath + ".info", []byte(fmt.Sprintf(`{"Version":3,"BucketsBits":%d,"MaxFileSize":%d,"FirstFile":%d,"PrimaryFileSize":%d}`, c.Bits, c.IndexFile, c.Aged, c.PrimaryFile))},
		{fmt.Sprintf("%s.%d", indexPath, c.Aged), nil},
	}
	if c.Primary != "CID" {
		ws = append(ws,
			wf{dataPath + ".info", []byte(fmt.Sprintf(`{"Version":1,"MaxFileSize":%d,"FirstFile":%d}`, c.PrimaryFile, c.Aged))},
			wf{fmt.Sprintf("%s.%d", dataPath, c.Aged), nil})
	}
	simrt.Yield(&simrt.Op{Kind: "harness.age", Apply: func() {
		fs := fsOf()
		if fs == nil || fs.FileCount() != 0 {
			return // not the first open of an empty directory
		}
		for _, w := range ws {
			fs.WriteFileDirect(w.path, w.data)
		}
	}})
}

func (d *Driver) OpenWithCtx(ctx context.Context, c StoreCfg) error {
	pt := store.MultihashPrimary
	if c.Primary == "CID" {
		pt = store.CIDPrimary
	}
	ageStore(c)
	st, err := store.OpenStore(ctx, pt, dataPath, indexPath, c.Immutable, c.Options()...)
	if err != nil {
		return err
	}
	d.St = st
	if c.Flusher {
		st.Start()
	}
	return nil
}

func (d *Driver) key(op *Op) (KeySpec, []byte) {
	k := d.P.Keys[op.Key%len(d.P.Keys)]
	return k, k.StoreKey(d.Cfg.Primary, op.Alt)
}

func errStr(err error) string {
	if err == nil {
		return ""
	}
	if errors.Is(err, types.ErrKeyExists) {
		return "exists"
	}
	return "error: " + err.Error()
}

// Call performs the store call of op and returns what it observed.
func (d *Driver) Call(op *Op) Res {
	var r Res
	switch op.K {
	case "put", "reput":
		_, sk := d.key(op)
		var v []byte
		if op.K == "reput" {
			k, _ := d.key(op)
			mv := d.Model.Get(k.Digest)
			v = mv.val
		} else {
			v = mkValue(op.VSeq, op.VLen, op.VNil)
		}
		r.Err = errStr(d.St.Put(sk, v))
	case "get":
		_, sk := d.key(op)
		v, found, err := d.St.Get(sk)
		r.Val, r.Found, r.Err = v, found, errStr(err)
	case "has":
		_, sk := d.key(op)
		found, err := d.St.Has(sk)
		r.Found, r.Err = found, errStr(err)
	case "size":
		_, sk := d.key(op)
		sz, found, err := d.St.GetSize(sk)
		r.Size, r.Found, r.Err = int(sz), found, errStr(err)
	case "remove":
		_, sk := d.key(op)
		removed, err := d.St.Remove(sk)
		r.Found, r.Err = removed, errStr(err)
	case "flush":
		r.Err = errStr(d.St.Flush())
	case "iter":
		it := d.St.NewIterator()
		for n := 0; ; n++ {
			k, v, err := it.Next()
			if err == io.EOF {
				break
			}
			if err != nil {
				r.Err = errStr(err)
				break
			}
			if n > 100000 {
				r.Err = "error: iteration does not terminate"
				break
			}
			r.Items = append(r.Items, Item{Key: append([]byte(nil), k...), Val: append([]byte(nil), v...)})
		}
	default:
		panic("driver: unknown op " + op.K)
	}
	return r
}

// CheckSeq compares the result of op with the model and updates the model
// (sequential semantics). class prefix identifies the engine.
func (d *Driver) CheckSeq(op *Op, r Res) {
	var k KeySpec
	var sk []byte
	var cur mval
	switch op.K {
	case "flush", "iter":
	default:
		k, sk = d.key(op)
		cur = d.Model.Get(k.Digest)
	}
	switch op.K {
	case "put", "reput":
		v := mkValue(op.VSeq, op.VLen, op.VNil)
		if op.K == "reput" {
			v = cur.val
		}
		if d.Cfg.Immutable && cur.present {
			if r.Err != "exists" {
				d.fail("map/put-immutable", "%v on existing key in immutable mode returned %q, want key-exists", op, r.Err)
			}
			return
		}
		if r.Err != "" {
			d.fail("map/put-error", "%v returned %q", op, r.Err)
			return
		}
		if cur.present && bytes.Equal(cur.val, v) {
			return // identical value: no-op (stored key unchanged)
		}
		d.Model.Set(k.Digest, mval{present: true, key: sk, val: v})
	case "get":
		if r.Err != "" {
			d.fail("map/get-error", "%v returned %q", op, r.Err)
			return
		}
		if r.Found != cur.present {
			d.fail("map/get-presence", "%v found=%v, model present=%v", op, r.Found, cur.present)
			return
		}
		if cur.present && !bytes.Equal(r.Val, cur.val) {
			d.fail("map/get-value", "%v returned %s, model has %s", op, short(r.Val), short(cur.val))
		}
	case "has":
		if r.Err != "" {
			d.fail("map/has-error", "%v returned %q", op, r.Err)
			return
		}
		if r.Found != cur.present {
			d.fail("map/has-presence", "%v = %v, model present=%v", op, r.Found, cur.present)
		}
	case "size":
		if r.Err != "" {
			d.fail("map/size-error", "%v returned %q", op, r.Err)
			return
		}
		if r.Found != cur.present {
			d.fail("map/size-presence", "%v found=%v, model present=%v", op, r.Found, cur.present)
			return
		}
		if cur.present && r.Size != len(cur.val) {
			d.fail("map/size-value", "%v = %d, model value has %d bytes", op, r.Size, len(cur.val))
		}
	case "remove":
		if r.Err != "" {
			d.fail("map/remove-error", "%v returned %q", op, r.Err)
			return
		}
		if r.Found != cur.present {
			d.fail("map/remove-result", "%v = %v, model present=%v", op, r.Found, cur.present)
		}
		d.Model.Set(k.Digest, mval{})
	case "flush":
		if r.Err != "" {
			d.fail("map/flush-error", "flush returned %q", r.Err)
		}
	case "iter":
		if r.Err != "" {
			d.fail("map/iter-error", "iteration returned %q", r.Err)
			return
		}
		d.checkIter(r.Items)
	}
}

func short(b []byte) string {
	if b == nil {
		return "nil"
	}
	if len(b) > 12 {
		return fmt.Sprintf("%x..(%d bytes)", b[:12], len(b))
	}
	return fmt.Sprintf("%x", b)
}

func (d *Driver) checkIter(items []Item) {
	want := map[string]int{}
	for _, dg := range d.Model.Digests() {
		mv := d.Model.m[dg]
		want[string(mv.key)+"\x00|"+string(mv.val)]++
	}
	got := map[string]int{}
	for _, it := range items {
		got[string(it.Key)+"\x00|"+string(it.Val)]++
	}
	if len(items) != d.Model.Len() {
		d.fail("map/iter-count", "iteration yielded %d pairs, model has %d", len(items), d.Model.Len())
		return
	}
	for k, n := range want {
		if got[k] != n {
			d.fail("map/iter-content", "iteration multiset differs from model (pair %x: got %d want %d)", k, got[k], n)
			return
		}
	}
}

// ReadBack compares every key of the plan with the model through Get, Has and
// GetSize.
func (d *Driver) ReadBack(class string) {
	for i := range d.P.Keys {
		for _, kind := range []string{"get", "has", "size"} {
			op := &Op{K: kind, Key: i}
			r := d.Call(op)
			before := d.Viol
			d.CheckSeq(op, r)
			if before == nil && d.Viol != nil {
				d.Viol.Class = class + "/" + d.Viol.Class
				return
			}
		}
	}
}

// mhPrimary returns the multihash primary or nil.
func (d *Driver) mhPrimary() *mhprimary.MultihashPrimary {
	mp, _ := d.St.Primary().(*mhprimary.MultihashPrimary)
	return mp
}

// countdownCtx expires after the n-th Err() call (deterministic "time limit").
type countdownCtx struct {
	context.Context
	left   int
	hit    bool
	cancel bool // report context.Canceled instead of DeadlineExceeded
}

func newCountdown(n int) *countdownCtx {
	return &countdownCtx{Context: context.Background(), left: n}
}

func (c *countdownCtx) Err() error {
	if c.left <= 0 {
		c.hit = true
		if c.cancel {
			return context.Canceled
		}
		return context.DeadlineExceeded
	}
	c.left--
	return nil
}

// cprobe counts an event from any task (race-detector safe).
func (d *Driver) cprobe(name string) {
	for i := 0; i < d.cn; i++ {
		if d.cnames[i] == name {
			d.ccounts[i]++
			return
		}
	}
	if d.cn < len(d.cnames) {
		d.cnames[d.cn] = name
		d.ccounts[d.cn] = 1
		d.cn++
	}
}

// mergeProbes folds the task-side counters into Probes (after the run).
func (d *Driver) mergeProbes() {
	for i := 0; i < d.cn; i++ {
		d.Probes[d.cnames[i]] += d.ccounts[i]
	}
	d.cn = 0
}
