package harness

import (
	"fmt"
	"sort"
	"strings"

	"verif/sim/simos"
	"verif/sim/simrt"
)

// RunOpt are per-execution options that are not part of the plan.
type RunOpt struct {
	Trace bool
	Tier  string
}

// RunOut is everything one execution reports.
type RunOut struct {
	Viol         *Violation
	Outcome      string
	Steps        int
	SimTime      int64
	Switches     int
	SchedHash    uint64
	Probes       map[string]int
	Faults       map[string]int
	FsOps        map[string]int
	States       []uint64 // hashes of quiescent disk images seen
	Inconclusive string   // non-empty: the run could not decide (capped etc.)
	Trace        []string
	Worlds       int // number of simulated worlds (recoveries count)
	Tape         []uint32
	Sample       any
	Pinned       *Plan     // plan that reproduces the violation directly (search engines)
	FinalFS      *simos.FS // file system of the last world (traced runs only)
}

func newOut() *RunOut {
	return &RunOut{Probes: map[string]int{}, Faults: map[string]int{}, FsOps: map[string]int{}}
}

func (o *RunOut) addFS(fs *simos.FS) {
	for k, n := range fs.Counts {
		if n > 0 {
			o.FsOps[simos.OpKind(k).String()] += n
		}
	}
}

func (o *RunOut) addDriver(d *Driver) {
	d.mergeProbes()
	o.addProbes(d.Probes)
}

func (o *RunOut) addProbes(m map[string]int) {
	for k, v := range m {
		o.Probes[k] += v
	}
}

// Engine executes a plan under a tape.
type Engine func(p *Plan, tape *simrt.Tape, opt RunOpt) *RunOut

// Generator draws the plan for a seed.
type Generator func(seed uint64, tier string) *Plan

var (
	engines    = map[string]Engine{}
	generators = map[string]Generator{}
)

// Generate returns the plan of (prop, seed).
func Generate(prop string, seed uint64, tier string) *Plan {
	g, ok := generators[prop]
	if !ok {
		panic("no generator for " + prop)
	}
	p := g(seed, tier)
	p.Prop = prop
	p.Seed = seed
	return p
}

// Execute runs a plan.
func Execute(p *Plan, tape *simrt.Tape, opt RunOpt) *RunOut {
	e, ok := engines[p.Engine]
	if !ok {
		panic("no engine " + p.Engine)
	}
	out := e(p, tape, opt)
	out.Tape = tape.Rec
	return out
}

// latencyFunc builds the per-op latency function of a plan.
func latencyFunc(l LatencyCfg, w *simrt.World) func(op *simos.OpRec) int64 {
	if l.Kind == "" && l.StallOp == 0 && l.StallEvery == 0 {
		return nil
	}
	return func(op *simos.OpRec) int64 {
		var d int64
		switch l.Kind {
		case "const":
			d = l.Base
		case "perbyte":
			d = l.Base + l.PerByte*int64(op.N)
		case "heavy":
			d = l.Base
			// heavy tail: deterministic function of the op sequence number
			x := simrt.SplitMix(uint64(op.Seq) * 7919)
			if x%16 == 0 {
				d *= int64(10 + x%1000)
			}
		}
		if l.StallOp != 0 && op.Seq+1 == l.StallOp {
			d += l.StallNs
			w.Stalls++
		}
		if l.StallEvery > 0 && simrt.SplitMix(uint64(op.Seq)*2654435761+uint64(l.StallNs))%uint64(l.StallEvery) == 0 {
			d += l.StallNs
			w.Stalls++
		}
		return d
	}
}

// world runs main as task 0 over fs with the plan's simulator settings.
func world(p *Plan, tape *simrt.Tape, fs *simos.FS, opt RunOpt, setup func(w *simrt.World), main func()) (*simrt.World, simrt.Result) {
	cfg := simrt.Config{
		MaxSteps: p.Sim.MaxSteps, Strategy: p.Sim.Strategy, Trace: opt.Trace, CapturePC: opt.Trace || p.Sim.SlowMod > 0,
		NowQuantum: p.Sim.Quantum, PreemptEvery: p.Sim.PreemptEvery, PreemptNs: p.Sim.PreemptNs,
		SlowSiteMod: p.Sim.SlowMod, SlowSiteSalt: p.Seed, SlowSiteNs: p.Sim.SlowNs, SlowSiteMax: 100, SlowSiteCoin: p.Sim.SlowCoin, JitterNs: p.Sim.JitterNs,
	}
	return simrt.Run(cfg, tape, func(w *simrt.World) {
		simos.Attach(w, fs)
		fs.Latency = latencyFunc(p.Sim.Latency, w)
		if setup != nil {
			setup(w)
		}
	}, main)
}

// finish folds the world's result into out; class prefix names the engine.
func finish(out *RunOut, w *simrt.World, res simrt.Result, p *Plan, viol *Violation, opt RunOpt) {
	out.Worlds++
	out.Steps += res.Steps
	out.SimTime += res.SimTime
	out.Switches += res.Switches
	if w.Preemptions > 0 {
		out.Faults["preempt"] += w.Preemptions
	}
	if w.Stalls > 0 {
		out.Faults["stall"] += w.Stalls
	}
	if w.SiteStalls > 0 {
		out.Faults["site-stall"] += w.SiteStalls
	}
	if w.Jitters > 0 {
		out.Faults["jitter"] += w.Jitters
	}
	if p.Sim.Latency.Kind != "" {
		out.Faults["latency-model-runs"]++
	}
	out.SchedHash = out.SchedHash*1099511628211 ^ res.SchedHash
	out.Outcome = res.Outcome.String()
	if out.Viol == nil {
		out.Viol = viol
	}
	if out.Viol == nil {
		switch res.Outcome {
		case simrt.OutPanic:
			out.Viol = &Violation{Prop: p.Prop, Class: "panic", Msg: fmt.Sprintf("%s\n%s", res.Reason, trimStack(res.PanicStack))}
		case simrt.OutDeadlock:
			out.Viol = &Violation{Prop: p.Prop, Class: "deadlock", Msg: "all tasks blocked: " + stuckString(res.Stuck)}
		case simrt.OutCapped:
			out.Inconclusive = res.Reason
		}
	}
	if opt.Trace {
		out.Trace = append(out.Trace, w.FormatTrace(400)...)
	}
}

func stuckString(st []simrt.StuckTask) string {
	var parts []string
	for _, s := range st {
		parts = append(parts, fmt.Sprintf("task %d (%s) at %s %s", s.Task, s.Name, s.Kind, simrt.SiteOf(s.PC)))
	}
	return strings.Join(parts, "; ")
}

func trimStack(s string) string {
	lines := strings.Split(s, "\n")
	var keep []string
	for _, l := range lines {
		if strings.Contains(l, "go-storethehash") || strings.Contains(l, "/repo/") || strings.Contains(l, "harness") {
			keep = append(keep, strings.TrimSpace(l))
		}
		if len(keep) > 24 {
			break
		}
	}
	return strings.Join(keep, "\n")
}

func sortedProbeNames(m map[string]int) []string {
	ks := make([]string, 0, len(m))
	for k := range m {
		ks = append(ks, k)
	}
	sort.Strings(ks)
	return ks
}

// newStoreFS returns a file system with the store directories present.
func newStoreFS() *simos.FS {
	fs := simos.NewFS()
	fs.MkdirAllDirect(indexDir)
	fs.MkdirAllDirect(dataDir)
	return fs
}
