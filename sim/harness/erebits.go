package harness

import (
	"errors"
	"fmt"
	"strings"

	"github.com/ipld/go-storethehash/store/types"

	"verif/sim/simos"
	"verif/sim/simrt"
)

// C09: changing the index bit size on reopen re-buckets without changing
// contents; file-size mismatches are refused with the specific error; an
// interrupted re-bucketing never leaves a store that opens with fewer keys.

func init() {
	engines["rebits"] = runRebits
	generators["C09"] = genC09
}

func genC09(seed uint64, tier string) *Plan {
	r := simrt.NewRand(seed)
	p := genC01(seed^0x0909, tier)
	p.Engine = "rebits"
	p.Cfg.GCMs = 0
	p.Cfg.Flusher = false
	bitsPool := []uint8{8, 9, 10, 12, 15, 16, 17, 20}
	b1 := bitsPool[r.Intn(len(bitsPool))]
	b2 := bitsPool[r.Intn(len(bitsPool))]
	for b2 == b1 {
		b2 = bitsPool[r.Intn(len(bitsPool))]
	}
	if tier == "thorough" && r.Chance(0.01) {
		if r.Chance(0.5) {
			b1 = 24
		} else {
			b2 = 24
		}
	}
	p.Cfg.Bits = b1
	p.X["bits2"] = int(b2)
	p.X["mode"] = 0
	if r.Chance(0.45) {
		p.X["mode"] = 1 // crash enumeration of the translating open
		if len(p.Ops) > 30 {
			p.Ops = p.Ops[:30]
		}
	}
	p.X["sample"] = 30
	if tier == "thorough" {
		p.X["sample"] = 0
	}
	p.X["crash_at"] = -1
	if r.Chance(0.35) {
		p.X["cancel_after"] = 1 + r.Intn(15)
	}
	// second history, run under the new bit size
	vseq := 200000
	mix := opMix{put: 35, get: 20, has: 5, size: 5, remove: 15, flush: 10, iter: 5, reput: 5}
	p.X["n2"] = 3 + r.Intn(20)
	_ = vseq
	_ = mix
	return p
}

// otherSize returns a file-size limit different from cur: a neighbour, a
// multiple, a fraction, or the documented default (1 GiB), which the harness
// configures by leaving the option out.
func otherSize(cur uint32, salt uint64) uint32 {
	c := []uint32{cur/2 + 7, cur + 1, cur - 1, cur * 2, 1 << 30, 1 << 30, 16, cur + 4096}
	for i := 0; i < len(c); i++ {
		v := c[(int(salt%8)+i)%len(c)]
		if v != cur && v >= 8 && v <= 1<<30 { // larger limits are illegal configurations, not mismatches
			return v
		}
	}
	return cur/2 + 7
}

func runRebits(p *Plan, tape *simrt.Tape, opt RunOpt) *RunOut {
	out := newOut()
	fs := newStoreFS()
	d := NewDriver(p)
	d.staticProbes()
	b1 := p.Cfg.Bits
	b2 := uint8(p.x("bits2", 8))
	mode := p.x("mode", 0)
	pinned := p.x("crash_at", -1)
	var cands []*crashCand
	var hit *crashCand
	translating := false
	fs.Hook = func(f *simos.FS, rec *simos.OpRec, data []byte) simos.Action {
		if !translating || !rec.Kind.Mutating() || mode != 1 {
			return simos.Action{}
		}
		if pinned >= 0 || p.XS["crash_kind"] != "" {
			match := rec.Mut == pinned
			if p.XS["crash_kind"] != "" {
				// site-directed crash point (witnesses of known findings): robust
				// against unrelated changes in the number of earlier operations
				match = rec.Kind.String() == p.XS["crash_kind"] && strings.Contains(rec.Path, p.XS["crash_path_contains"]) && strings.HasSuffix(rec.Path, p.XS["crash_path_suffix"]) && (p.XS["crash_path_excludes"] == "" || !strings.Contains(rec.Path, p.XS["crash_path_excludes"]))
			}
			if match && hit == nil {
				hit = &crashCand{mut: rec.Mut, rec: *rec}
				return simos.Action{Crash: true, Torn: p.x("torn", 0)}
			}
			return simos.Action{}
		}
		c := &crashCand{mut: rec.Mut, rec: *rec, img: f.Snapshot()}
		if rec.Kind == simos.OpWrite {
			if cur, ok := f.ReadFileDirect(rec.Path); ok && rec.Off >= int64(len(cur)) {
				c.data = append([]byte(nil), data...)
			}
		}
		cands = append(cands, c)
		return simos.Action{}
	}
	var model *Model
	forwardOK := false
	w, res := world(p, tape, fs, opt, nil, func() {
		if err := d.Open(); err != nil {
			d.fail("open-error", "OpenStore failed: %v", err)
			return
		}
		for i := range p.Ops {
			d.OpIdx = i
			d.Exec(&p.Ops[i])
			if d.Viol != nil {
				d.Viol = nil
				d.Probes["other-oracle-failed"]++
				return
			}
		}
		if !d.CloseStore("final") {
			d.Viol = nil
			d.Probes["other-oracle-failed"]++
			return
		}
		model = d.Model.Clone()
		d.fileProbes(fsOf())

		if mode == 0 {
			// file-size mismatches are refused with the specific error and change nothing we can see
			bad := d.Cfg
			bad.IndexFile = otherSize(d.Cfg.IndexFile, p.Seed)
			err := d.OpenWith(bad)
			var ie types.ErrIndexWrongFileSize
			if err == nil || !errors.As(err, &ie) {
				d.fail("rebits/size-mismatch-not-refused", "reopen with index file size %d instead of %d returned %v, want ErrIndexWrongFileSize", bad.IndexFile, d.Cfg.IndexFile, err)
				return
			}
			if d.Cfg.Primary != "CID" {
				bad = d.Cfg
				bad.PrimaryFile = otherSize(d.Cfg.PrimaryFile, p.Seed>>8)
				err = d.OpenWith(bad)
				var pe types.ErrPrimaryWrongFileSize
				if err == nil || !errors.As(err, &pe) {
					d.fail("rebits/size-mismatch-not-refused", "reopen with primary file size %d instead of %d returned %v, want ErrPrimaryWrongFileSize", bad.PrimaryFile, d.Cfg.PrimaryFile, err)
					return
				}
			}
			// both the bit size and the index file size differ: still refused with
			// the file-size error (the bit-size change must not mask it)
			bad = d.Cfg
			bad.Bits = b2
			bad.IndexFile = otherSize(d.Cfg.IndexFile, p.Seed>>16)
			err = d.OpenWith(bad)
			var ie2 types.ErrIndexWrongFileSize
			if err == nil || !errors.As(err, &ie2) {
				if err == nil {
					d.St.Close()
				}
				d.fail("rebits/size-mismatch-not-refused", "reopen with %d bits and index file size %d (store has %d bits, file size %d) returned %v, want ErrIndexWrongFileSize", b2, bad.IndexFile, b1, d.Cfg.IndexFile, err)
				return
			}
			d.Probes["mismatch-refused"]++
			// original settings: contents intact
			if err := d.Open(); err != nil {
				d.fail("rebits/open-after-refusal", "open with the original settings after a refused open failed: %v", err)
				return
			}
			d.ReadBack("rebits/after-refusal")
			if d.Viol != nil {
				return
			}
			if !d.CloseStore("rebits") {
				return
			}
		}

		// a re-bucketing interrupted by context cancellation after n context
		// checks: it may fail, but whatever opens afterwards must have every key
		if n := p.x("cancel_after", 0); n > 0 && mode == 0 {
			cd := newCountdown(n)
			cd.cancel = true
			c2 := d.Cfg
			c2.Bits = b2
			err := d.OpenWithCtx(cd, c2)
			if err == nil {
				d.ReadBack("rebits/after-cancelled-translate")
				if d.Viol != nil {
					return
				}
				if !d.CloseStore("rebits") {
					return
				}
				d.Probes["cancel-too-late"]++
			} else {
				d.Probes["translate-cancelled"]++
			}
			for _, bits := range []uint8{b2, b1} {
				c3 := d.Cfg
				c3.Bits = bits
				if err := d.OpenWith(c3); err != nil {
					continue // an interrupted re-bucketing may refuse to open
				}
				d.ReadBack("rebits/after-cancelled-translate")
				if d.Viol != nil {
					d.Viol.Class = "rebits/cancel-lost-key"
					d.Viol.Msg = fmt.Sprintf("after a re-bucketing %d->%d bits cancelled at its %d-th context check, reopening with %d bits succeeded but: %s", b1, b2, n, bits, d.Viol.Msg)
					return
				}
				if !d.CloseStore("rebits") {
					return
				}
			}
			// make sure the store is back under b1 for the rest of the case
			c4 := d.Cfg
			c4.Bits = b1
			if err := d.OpenWith(c4); err != nil {
				d.Probes["cancelled-translate-left-unopenable"]++
				return
			}
			if !d.CloseStore("rebits") {
				return
			}
		}
		// translate
		d.Cfg.Bits = b2
		translating = true
		err := d.Open()
		translating = false
		if err != nil {
			d.fail("rebits/translate-error", "reopen with %d bits (was %d) failed: %v", b2, b1, err)
			return
		}
		forwardOK = true
		d.Probes["translated"]++
		d.ReadBack("rebits/after-translate")
		if d.Viol != nil {
			return
		}
		r := d.Call(&Op{K: "iter"})
		d.CheckSeq(&Op{K: "iter"}, r)
		if d.Viol != nil {
			d.Viol.Class = "rebits/after-translate/" + d.Viol.Class
			return
		}
		// continue under the new size
		d.FsckOn = true
		rr := simrt.NewRand(p.Seed ^ 0x9b2)
		vseq := 200000
		mix := opMix{put: 35, get: 20, has: 5, size: 5, remove: 15, flush: 10, iter: 5, reput: 5}
		ops := genSeqOps(rr, p.x("n2", 5), len(p.Keys), mix, false, &vseq)
		for i := range ops {
			d.Exec(&ops[i])
			if d.Viol != nil {
				d.Viol.Class = "rebits/continued/" + d.Viol.Class
				return
			}
		}
		d.Exec(&Op{K: "flush"})
		if d.Viol != nil {
			return
		}
		d.ReadBack("rebits/continued")
		if d.Viol != nil {
			return
		}
		if !d.CloseStore("rebits") {
			return
		}
		// and back again
		d.Cfg.Bits = b1
		if err := d.Open(); err != nil {
			d.fail("rebits/translate-error", "reopen back with %d bits failed: %v", b1, err)
			return
		}
		d.ReadBack("rebits/after-translate-back")
		if d.Viol != nil {
			return
		}
		d.CloseStore("rebits")
	})
	out.addFS(fs)
	out.FinalFS = fs
	out.addDriver(d)
	fs.Hook = nil
	if pinned >= 0 || p.XS["crash_kind"] != "" {
		out.Worlds++
		out.Steps += res.Steps
		out.Outcome = res.Outcome.String()
		if hit == nil || res.Outcome != simrt.OutCrash || model == nil {
			out.Probes["crash-point-not-reached"]++
			return out
		}
		out.Faults["crash"]++
		img := fs.Snapshot()
		where := fmt.Sprintf("crash before %s %s (mutating op %d of the run, inside the re-bucketing open %d->%d bits, torn=%d)", hit.rec.Kind, hit.rec.Path, hit.mut, b1, b2, p.x("torn", 0))
		out.Viol = rebitsRecover(p, out, opt, img, model, b1, b2, where)
		return out
	}
	finish(out, w, res, p, d.Viol, opt)
	out.Sample = fmt.Sprintf("bits %d->%d mode=%d cfg=%+v keys=%d ops=%v", b1, b2, mode, p.Cfg, len(p.Keys), opsString(p.Ops, 8))
	if mode != 1 || out.Viol != nil || !forwardOK || model == nil {
		return out
	}
	// crash enumeration over the translating open
	out.Probes["crash-points"] += len(cands)
	r := simrt.NewRand(p.Seed ^ 0x9c9)
	type job struct {
		c    *crashCand
		torn int
	}
	var jobs []job
	sample := p.x("sample", 30)
	if sample == 0 && (b1 >= 20 || b2 >= 20) {
		// every boot of a 2^20..2^24-bucket index reads and writes a table of
		// 8-128 MiB: enumerating every crash point of one such history would
		// take minutes of real time, so it is sampled in the thorough tier too
		sample = 40
		out.Probes["large-table-sampled"]++
	}
	all := sample == 0
	for _, c := range cands {
		jobs = append(jobs, job{c: c})
		if c.data != nil {
			for _, k := range tornLengths(len(c.data), r, all) {
				jobs = append(jobs, job{c: c, torn: k})
			}
		}
	}
	if !all && len(jobs) > sample {
		for i := len(jobs) - 1; i > 0; i-- {
			j := r.Intn(i + 1)
			jobs[i], jobs[j] = jobs[j], jobs[i]
		}
		jobs = jobs[:sample]
	}
	// steering rule of known finding KF-1 (non-atomic directory swap at the end of
	// translateIndex): crash points after the first old index file was moved away
	// and up to the rename of the new header into place are not booted. Keyed by
	// the operations' paths, not by seeds or positions.
	swapFrom, swapTo := -1, -1
	if Steering("C09-translate-swap-window", p) {
		for _, c := range cands {
			if c.rec.Kind == simos.OpRename && strings.Contains(c.rec.Path2, "/old_index") && swapFrom < 0 {
				swapFrom = c.mut
			}
			if c.rec.Kind == simos.OpRename && strings.Contains(c.rec.Path, "/new_index") && strings.HasSuffix(c.rec.Path, "index.info") {
				swapTo = c.mut
			}
		}
	}
	seen := map[uint64]bool{}
	for _, j := range jobs {
		if swapFrom >= 0 && j.c.mut > swapFrom && (swapTo < 0 || j.c.mut <= swapTo) {
			out.Probes["steered-away"]++
			continue
		}
		img := j.c.img
		if j.torn > 0 {
			img = tornImage(j.c, j.torn)
		}
		h := img.Hash()
		if seen[h] {
			continue
		}
		seen[h] = true
		out.States = append(out.States, h)
		out.Faults["crash"]++
		if j.torn > 0 {
			out.Faults["torn"]++
		}
		where := fmt.Sprintf("crash before %s %s (mutating op %d of the run, inside the re-bucketing open %d->%d bits, torn=%d)", j.c.rec.Kind, j.c.rec.Path, j.c.mut, b1, b2, j.torn)
		if v := rebitsRecover(p, out, opt, img, model, b1, b2, where); v != nil {
			out.Viol = v
			pp := p.Clone()
			pp.X["crash_at"] = j.c.mut
			pp.X["torn"] = j.torn
			out.Pinned = pp
			return out
		}
	}
	return out
}

// rebitsRecover opens a crash image of an interrupted re-bucketing with the new
// and with the old bit size: either open may fail, but one that succeeds must
// show every key of the model with its value.
func rebitsRecover(p *Plan, out *RunOut, opt RunOpt, img *simos.Image, model *Model, b1, b2 uint8, where string) *Violation {
	for _, bits := range []uint8{b2, b1} {
		fs := simos.Boot(img)
		d := NewDriver(p)
		d.Cfg.Bits = bits
		d.Model = model.Clone()
		openErr := ""
		_, res := world(p, simrt.ReplayTape(nil), fs, RunOpt{}, nil, func() {
			if err := d.Open(); err != nil {
				openErr = err.Error()
				return
			}
			for i, k := range p.Keys {
				mv := d.Model.Get(k.Digest)
				if !mv.present {
					continue
				}
				g := d.Call(&Op{K: "get", Key: i})
				if g.Err != "" || !g.Found || string(g.Val) != string(mv.val) {
					st := "absent"
					if g.Found {
						st = short(g.Val)
					}
					if g.Err != "" {
						st = g.Err
					}
					d.fail("rebits/crash-lost-key", "%s: reopening with %d bits succeeded but key k%d reads %s, stored value was %s", where, bits, i, st, short(mv.val))
					return
				}
			}
			d.CloseStore("rebits/crash")
		})
		out.Worlds++
		out.Steps += res.Steps
		out.Probes["recoveries"]++
		if openErr != "" {
			out.Probes["recovery-open-refused"]++
		}
		if d.Viol != nil {
			return d.Viol
		}
		if res.Outcome == simrt.OutPanic {
			return &Violation{Prop: p.Prop, Class: "rebits/crash-panic", Msg: where + ": reopening panicked: " + res.Reason + "\n" + trimStack(res.PanicStack)}
		}
	}
	return nil
}
