package harness

import (
	"fmt"
	"os"
	"sort"
	"strings"

	"verif/sim/simos"
	"verif/sim/simrt"
)

// E-crash: a forward E-seq run during which every mutating file operation is a
// crash point; each crash image (optionally with a torn write, optionally with
// a second crash during recovery) is booted in a fresh world and checked with
// the recovery-admissibility oracle, followed by a continued workload, GC
// cycles, reopen and fsck.

func init() {
	engines["crash"] = runCrash
	generators["C03"] = genC03
}

// genC03Scale: histories that cross the store's fixed size thresholds, which
// the small histories never reach: more than 1024 superseding calls between two
// flushes (the capacity the write pools and the freelist pool are created
// with), or 1400-1800 keys in distinct buckets written by one flush (more index
// record lists, primary records and freelist entries than fit the 64 KiB write
// buffers, so the buffered writers spill to the files in the middle of a commit).
func genC03Scale(seed uint64, tier string) *Plan {
	r := simrt.NewRand(seed ^ 0x5ca1e)
	p := &Plan{Engine: "crash", X: map[string]int{"scale": 1}}
	p.Cfg = StoreCfg{Primary: "multihash", Bits: []uint8{12, 16, 16}[r.Intn(3)], FileCache: 512,
		IndexFile: []uint32{1 << 30, 1 << 30, 65536, 4096}[r.Intn(4)], PrimaryFile: []uint32{1 << 30, 1 << 30, 65536, 4096}[r.Intn(4)]}
	p.Cfg.GCMs = 1000 * 3600 * 1000
	vseq := 0
	put := func(k int) Op { vseq++; return Op{K: "put", Key: k, VSeq: vseq, VLen: 4 + r.Intn(40)} }
	randomKeys := func(n int) {
		seen := map[string]bool{}
		for len(p.Keys) < n {
			d := make([]byte, 32)
			for j := range d {
				d[j] = byte(r.Intn(256))
			}
			if !seen[string(d[:4])] { // distinct leading bytes: distinct buckets where the bit size allows
				seen[string(d[:4])] = true
				p.Keys = append(p.Keys, KeySpec{Digest: d, Code: codeSHA256})
			}
		}
	}
	if r.Chance(0.5) {
		// burst: a few keys, flushed, then > 1024 overwrites / removals without a flush
		p.X["burst"] = 1
		randomKeys(1 + r.Intn(3))
		nk := len(p.Keys)
		for k := 0; k < nk; k++ {
			p.Ops = append(p.Ops, put(k))
		}
		p.Ops = append(p.Ops, Op{K: "flush"})
		n := 1030 + r.Intn(300)
		for i := 0; i < n; i++ {
			k := r.Intn(nk)
			if r.Chance(0.1) {
				p.Ops = append(p.Ops, Op{K: "remove", Key: k})
			} else {
				p.Ops = append(p.Ops, put(k))
			}
		}
	} else {
		// wide: many buckets in one flush
		p.X["wide"] = 1
		randomKeys(1400 + r.Intn(400))
		for k := range p.Keys {
			p.Ops = append(p.Ops, put(k))
		}
		p.Ops = append(p.Ops, Op{K: "flush"})
		for i := 0; i < 1100+r.Intn(500); i++ {
			k := r.Intn(len(p.Keys))
			if r.Chance(0.15) {
				p.Ops = append(p.Ops, Op{K: "remove", Key: k})
			} else {
				p.Ops = append(p.Ops, put(k))
			}
		}
	}
	// the tail: GC cycles and flushes in some order, then a little more work
	for i := 0; i < 2+r.Intn(4); i++ {
		switch r.Intn(4) {
		case 0:
			p.Ops = append(p.Ops, Op{K: "flush"})
		case 1:
			p.Ops = append(p.Ops, Op{K: "igc", A: r.Intn(2)})
		default:
			p.Ops = append(p.Ops, Op{K: "pgc", A: []int{0, 50, 85, 101}[r.Intn(4)]})
		}
		if r.Chance(0.5) {
			p.Ops = append(p.Ops, put(r.Intn(len(p.Keys))))
		}
	}
	p.Ops = append(p.Ops, Op{K: "flush"})
	p.X["followup"] = 6
	p.X["sample"] = 16
	if tier == "thorough" {
		p.X["sample"] = 60
	}
	p.X["crash_at"] = -1
	p.Sim = SimCfg{Strategy: simrt.Strategy{Kind: "sticky", Stick: 0.9}}
	return p
}

func genC03(seed uint64, tier string) *Plan {
	r := simrt.NewRand(seed)
	if r.Chance(0.03) {
		return genC03Scale(seed, tier)
	}
	p := &Plan{Engine: "crash", X: map[string]int{}}
	p.Cfg = genCfg(r, false)
	if p.Cfg.Bits > 17 {
		p.Cfg.Bits = 8
	}
	if r.Chance(0.75) {
		p.Cfg.Primary = "multihash"
	}
	p.Cfg.GCMs = 1000 * 3600 * 1000 // collectors exist (explicit cycles) but never fire on their own
	nk := 1 + r.Intn(8)
	p.Keys = GenKeys(r, nk, p.Cfg.ShortKeys)
	mix := opMix{put: 40, get: 5, has: 1, size: 1, remove: 15, flush: 15, iter: 2, reput: 2}
	n := 3 + r.Intn(30)
	vseq := 0
	ops := genSeqOps(r, n, nk, mix, p.Cfg.Primary == "CID", &vseq)
	// sprinkle GC cycles, reopen and freelist hand-over into the history
	var out []Op
	for _, o := range ops {
		out = append(out, o)
		switch {
		case r.Chance(0.06):
			out = append(out, Op{K: "igc", A: r.Intn(2)})
		case r.Chance(0.08) && p.Cfg.Primary == "multihash":
			out = append(out, Op{K: "pgc", A: []int{0, 1, 50, 74, 85, 100}[r.Intn(6)]})
		case r.Chance(0.05):
			out = append(out, Op{K: "reopen", A: r.Intn(2)})
		}
	}
	p.Ops = out
	forceBG := os.Getenv("VERIF_C03_BG") == "1" // experiments only; not set by any registered command
	if forceBG {
		p.Cfg.Primary = "multihash"
	}
	if (r.Chance(0.4) || forceBG) && p.Cfg.Primary == "multihash" {
		// background variant: the store's own flusher and collectors run on short
		// simulated intervals during the forward run, so crash points land in the
		// middle of background flushes and GC cycles (explicit GC ops are dropped:
		// two cycles of one collector at once is not a supported use)
		p.X["bg"] = 1
		p.Cfg.Flusher = true
		p.Cfg.SyncMs = 1 + r.Intn(20)
		p.Cfg.GCMs = int64(3 + r.Intn(40))
		p.Cfg.GCLimitMs = int64([]int{0, 1, 5}[r.Intn(3)])
		if r.Chance(0.4) {
			// dense collectors: a cycle every 1-4 ms, so that most commits overlap
			// with a GC cycle
			p.Cfg.GCMs = int64(1 + r.Intn(4))
			p.X["dense"] = 1
		}
		if r.Chance(0.5) {
			// collectors only have work when files roll over
			p.Cfg.IndexFile = fileSizes[r.Intn(3)]
		}
		busy := r.Chance(0.4) || os.Getenv("VERIF_C03_BUSY") == "1" // env: experiments only
		if busy {
			// busy writer: a long run of overwrites and removals of the keys
			// with short pauses, small index and primary files, dense collectors:
			// nearly every periodic flush has work and overlaps a GC cycle that
			// has older files to reap
			p.X["busy"] = 1
			p.X["dense"] = 1
			p.Cfg.GCMs = int64(1 + r.Intn(4))
			p.Cfg.SyncMs = 1 + r.Intn(8)
			p.Cfg.IndexFile = fileSizes[r.Intn(5)]
			p.Cfg.PrimaryFile = fileSizes[r.Intn(6)]
			// several buckets per flush: the commit's window between deciding a
			// bucket's position and writing the buffer then spans the encoding of
			// the other buckets, including their file roll-overs
			if len(p.Keys) < 2 {
				// one call, so that the set stays prefix-free (short keys)
				p.Keys = GenKeys(r, 2+r.Intn(3), p.Cfg.ShortKeys)
			}
			vs := 1000
			p.Ops = genSeqOps(r, 25+r.Intn(40), len(p.Keys), opMix{put: 60, get: 3, remove: 15, flush: 4, reput: 2}, false, &vs)
		}
		var keep []Op
		for _, o := range dropGCOps(p.Ops) {
			keep = append(keep, o)
			switch {
			case busy && r.Chance(0.7):
				keep = append(keep, Op{K: "sleep", A: 1 + r.Intn(3000)})
			case !busy && r.Chance(0.5):
				keep = append(keep, Op{K: "sleep", A: 1 + r.Intn(30000)})
			}
		}
		p.Ops = keep
		if r.Chance(0.55) && os.Getenv("VERIF_C03_NOLAT") != "1" {
			p.Sim.Latency = LatencyCfg{Kind: "const", Base: int64(1000 * (1 + r.Intn(300)))}
		} else {
			// no latency model: file operations take no simulated time, so the
			// flusher and the collectors woken during one sleep of the writer
			// interleave step by step under the random strategy
			p.X["nolat"] = 1
		}
	}
	p.X["followup"] = 6 + r.Intn(14)
	p.X["sample"] = 24
	if forceBG && os.Getenv("VERIF_C03_ALL") == "1" {
		p.X["sample"] = 0
	}
	if tier == "thorough" {
		p.X["sample"] = 0 // all crash points
	}
	p.X["crash_at"] = -1
	lat := p.Sim.Latency
	p.Sim = SimCfg{Strategy: simrt.Strategy{Kind: "sticky", Stick: 0.9}, Latency: lat}
	if p.X["bg"] == 1 {
		p.Sim.Strategy = simrt.Strategy{Kind: "random"}
		p.Sim.MaxSteps = 80000
		if r.Chance(0.75) {
			// descheduled goroutines: with a latency model file operations take
			// simulated time but lock operations do not, so without preemption a
			// collector could never complete a read-check-mark sequence inside a
			// commit's lock-only window
			p.Sim.PreemptEvery = 8 + r.Intn(80)
			p.Sim.PreemptNs = int64(200+r.Intn(5000)) * 1000
		}
		pert := os.Getenv("VERIF_C03_PERT") // experiments only
		if (r.Chance(0.4) && pert == "") || pert == "jitter" {
			// all tasks advance at comparable, varying speeds on the simulated
			// clock; replaces the other two perturbations
			p.Sim.PreemptEvery, p.Sim.PreemptNs = 0, 0
			p.Sim.JitterNs = int64(20+r.Intn(400)) * 1000
			p.X["jitter"] = 1
		} else if (r.Chance(0.6) && pert == "") || pert == "slow" {
			// a few program points at which every task passing by may be held up
			// for milliseconds: opens two-statement windows (between a commit's
			// cut and its write, between a collector's check and its mark) wide
			// enough for whole flushes and GC cycles of the other tasks: a stall
			// lasts one to two periods of the slower background activity
			p.Sim.SlowMod = 4 + r.Intn(10)
			p.Sim.SlowCoin = []int{2, 3, 4, 8}[r.Intn(4)]
			period := p.Cfg.GCMs
			if int64(p.Cfg.SyncMs) > period {
				period = int64(p.Cfg.SyncMs)
			}
			if period > 10 {
				period = 10
			}
			p.Sim.SlowNs = period * int64(1000+r.Intn(1000)) * 1000
		}
	}
	return p
}

// crashCand is one candidate crash point captured during the forward run.
type crashCand struct {
	mut   int
	rec   simos.OpRec
	data  []byte // bytes of the write (for torn variants)
	img   *simos.Image
	adm   *Adm
	opIdx int
	// inter: the previous mutating op was issued by another task, i.e. this
	// crash point lies inside a window in which two activities (writer, flusher,
	// collectors) have interleaved their file mutations
	inter      bool
	afterDestr bool
}

// tornLengths returns the torn-write lengths to try for an n-byte write.
func tornLengths(n int, r *simrt.Rand, all bool) []int {
	if n <= 1 {
		return nil
	}
	var ks []int
	if n <= 64 && all {
		for k := 1; k < n; k++ {
			ks = append(ks, k)
		}
		return ks
	}
	seen := map[int]bool{}
	add := func(k int) {
		if k >= 1 && k < n && !seen[k] {
			seen[k] = true
			ks = append(ks, k)
		}
	}
	for _, k := range []int{1, 3, 4, 5, 7, 8, 12, 13, 16, n - 1, n - 4, n - 5, n / 2} {
		add(k)
	}
	for i := 0; i < 6; i++ {
		add(1 + r.Intn(n-1))
	}
	if !all && len(ks) > 4 {
		// sample
		for i := len(ks) - 1; i > 0; i-- {
			j := r.Intn(i + 1)
			ks[i], ks[j] = ks[j], ks[i]
		}
		ks = ks[:4]
	}
	return ks
}

// tornImage applies the first k bytes of the write described by c to a copy of
// the image taken just before it.
func tornImage(c *crashCand, k int) *simos.Image {
	img := &simos.Image{Files: make(map[string][]byte, len(c.img.Files)), Dirs: c.img.Dirs}
	for p, d := range c.img.Files {
		img.Files[p] = d
	}
	old := img.Files[c.rec.Path]
	at := int(c.rec.Off)
	part := c.data[:k]
	var nd []byte
	if at >= len(old) {
		nd = append(append(append([]byte{}, old...), make([]byte, at-len(old))...), part...)
	} else {
		nd = append([]byte{}, old...)
		if at+len(part) > len(nd) {
			nd = append(nd[:at], part...)
		} else {
			copy(nd[at:], part)
		}
	}
	img.Files[c.rec.Path] = nd
	return img
}

func runCrash(p *Plan, tape *simrt.Tape, opt RunOpt) *RunOut {
	out := newOut()
	pinned := p.x("crash_at", -1)
	fs := newStoreFS()
	d := NewDriver(p)
	d.Adm = newAdm()
	d.staticProbes()
	if p.x("bg", 0) == 1 && Steering("C03-concurrent-commit", p) {
		// steering rule of known finding KF-4 (the store's commit is not an atomic
		// cut with respect to a concurrent writer): the background variant keeps
		// its collectors but the periodic flusher is not started, so every flush
		// is issued by the single writer itself
		d.Cfg.Flusher = false
		out.Probes["steered-away"]++
	}
	var cands []*crashCand
	var hit *crashCand
	fs.Hook = func(f *simos.FS, rec *simos.OpRec, data []byte) simos.Action {
		if !rec.Kind.Mutating() {
			return simos.Action{}
		}
		if pinned >= 0 {
			if rec.Mut == pinned {
				hit = &crashCand{mut: rec.Mut, rec: *rec, adm: d.Adm.clone(), opIdx: d.OpIdx}
				return simos.Action{Crash: true, Torn: p.x("torn", 0)}
			}
			return simos.Action{}
		}
		c := &crashCand{mut: rec.Mut, rec: *rec, img: f.Snapshot(), adm: d.Adm.clone(), opIdx: d.OpIdx}
		if n := len(cands); n > 0 {
			prev := cands[n-1]
			if prev.rec.Task != rec.Task {
				c.inter = true
			}
			// the image of this crash point ends with an in-place mutation
			// (deleted mark, truncation, unlink, rename: what collectors and
			// commits do) rather than an append
			c.afterDestr = prev.rec.Kind != simos.OpWrite || prev.data == nil
		}
		// torn variants apply to appended regions (the property's quantifier):
		// Write calls that extend the file, not in-place 4-byte WriteAt marks
		if rec.Kind == simos.OpWrite {
			if cur, ok := f.ReadFileDirect(rec.Path); ok && rec.Off >= int64(len(cur)) {
				c.data = append([]byte(nil), data...)
			}
		}
		cands = append(cands, c)
		return simos.Action{}
	}
	w, res := world(p, tape, fs, opt, nil, func() {
		if err := d.Open(); err != nil {
			d.fail("open-error", "OpenStore failed: %v", err)
			return
		}
		for i := range p.Ops {
			d.OpIdx = i
			d.Exec(&p.Ops[i])
			if d.Viol != nil {
				return
			}
		}
		d.OpIdx = len(p.Ops)
		d.CloseStore("final")
	})
	out.addFS(fs)
	out.Worlds++
	out.Steps += res.Steps
	out.SimTime += res.SimTime
	out.SchedHash = res.SchedHash
	out.Switches += res.Switches
	out.Outcome = res.Outcome.String()
	if w.Preemptions > 0 {
		out.Faults["preempt"] += w.Preemptions
	}
	if w.SiteStalls > 0 {
		out.Faults["site-stall"] += w.SiteStalls
	}
	if w.Jitters > 0 {
		out.Faults["jitter"] += w.Jitters
	}
	if dbg := os.Getenv("VERIF_DEBUG_SITES"); dbg != "" {
		f, _ := os.OpenFile(dbg, os.O_APPEND|os.O_CREATE|os.O_WRONLY, 0o644)
		defer f.Close()
		fmt.Fprintf(f, "SITES seed=%d busy=%d nolat=%d mod=%d coin=%d ns=%d stalls=%d steps=%d outcome=%s %v\n", p.Seed, p.x("busy", 0), p.x("nolat", 0), p.Sim.SlowMod, p.Sim.SlowCoin, p.Sim.SlowNs, w.SiteStalls, res.Steps, res.Outcome, w.SiteStallCounts())
	}
	if opt.Trace {
		out.Trace = append(out.Trace, "--- forward run ---")
		out.Trace = append(out.Trace, w.FormatTrace(150)...)
	}
	fs.Hook = nil
	out.Sample = fmt.Sprintf("cfg=%+v keys=%d ops=%v", p.Cfg, len(p.Keys), opsString(p.Ops, 14))

	if pinned >= 0 {
		if hit == nil || res.Outcome != simrt.OutCrash {
			out.Probes["crash-point-not-reached"]++
			return out
		}
		out.Faults["crash"]++
		if p.x("torn", 0) > 0 {
			out.Faults["torn"]++
		}
		img := fs.Snapshot()
		rc := &recoverer{p: p, out: out, opt: opt, light: p.x("light", 0) == 1}
		v := rc.recover(img, hit.adm, p.x("nested_at", -1), fmt.Sprintf("crash before %s %s (mutating op %d, during plan op %d, torn=%d)", hit.rec.Kind, hit.rec.Path, hit.mut, hit.opIdx, p.x("torn", 0)))
		if v != nil && p.Prop == "C07" && !strings.Contains(v.Class, "fsck") {
			v = nil
		}
		if v != nil && p.Prop == "C13" && !strings.Contains(v.Class, "ledger/") {
			v = nil
		}
		out.Viol = v
		return out
	}

	// search mode: the forward run must be clean, otherwise it is another
	// property's business
	if d.Viol != nil || res.Outcome != simrt.OutDone {
		out.Probes["forward-run-failed"]++
		if res.Outcome == simrt.OutCapped {
			out.Inconclusive = res.Reason
		}
		return out
	}
	d.fileProbes(fs)
	out.addDriver(d)
	out.Probes["crash-points"] += len(cands)

	// choose which crash points (and torn variants) to boot
	r := simrt.NewRand(p.Seed ^ 0xc4a54)
	type job struct {
		c      *crashCand
		torn   int
		nested bool
		light  bool
	}
	var jobs []job
	sample := p.x("sample", 24)
	all := sample == 0
	for _, c := range cands {
		jobs = append(jobs, job{c: c})
		if c.data != nil {
			for _, k := range tornLengths(len(c.data), r, all) {
				jobs = append(jobs, job{c: c, torn: k})
			}
		}
	}
	if p.x("c13crash", 0) == 1 && !all {
		// crash class of C13: every crash point at an operation on the freelist
		// file or its hand-over file (and the one right after it), plus a few others
		var pick, rest []job
		for i, j := range jobs {
			near := strings.Contains(j.c.rec.Path, ".free") || strings.Contains(j.c.rec.Path2, ".free")
			if !near && i > 0 {
				pr := jobs[i-1].c.rec
				near = strings.Contains(pr.Path, ".free") || strings.Contains(pr.Path2, ".free")
			}
			if near && len(pick) < 40 {
				pick = append(pick, j)
			} else {
				rest = append(rest, j)
			}
		}
		for i := len(rest) - 1; i > 0; i-- {
			k := r.Intn(i + 1)
			rest[i], rest[k] = rest[k], rest[i]
		}
		if len(rest) > 6 {
			rest = rest[:6]
		}
		jobs = append(pick, rest...)
		out.Probes["freelist-crash-points"] += len(pick)
		sample = len(jobs)
	}
	if !all && len(jobs) > sample {
		// biased sample: prefer crash points inside flush/GC/close/open (ops that
		// are not plain appends of a put) and torn writes
		for i := len(jobs) - 1; i > 0; i-- {
			j := r.Intn(i + 1)
			jobs[i], jobs[j] = jobs[j], jobs[i]
		}
		if p.x("bg", 0) == 1 {
			// background variant: two thirds of the sample goes to crash points
			// that a sequential history cannot produce: first those whose image
			// ends with an in-place mutation (a collector's mark, truncation or
			// unlink, a header rename) while another task is in the middle of its
			// own file mutations, then other points at which the mutations of
			// different tasks interleave
			rank := func(j job) int {
				switch {
				case j.torn > 0:
					return 0
				case j.c.afterDestr && j.c.inter:
					return 3
				case j.c.afterDestr:
					return 2
				case j.c.inter:
					return 1
				}
				return 0
			}
			sort.SliceStable(jobs, func(a, b int) bool { return rank(jobs[a]) > rank(jobs[b]) })
			ni := 0
			for _, j := range jobs {
				if rank(j) > 0 {
					ni++
				}
			}
			if lim := sample * 2 / 3; ni > lim {
				// keep lim ranked ones in front, fill the rest from a shuffle of the remainder
				rest := jobs[lim:]
				for i := len(rest) - 1; i > 0; i-- {
					j := r.Intn(i + 1)
					rest[i], rest[j] = rest[j], rest[i]
				}
			}
			out.Probes["interleaved-crash-points"] += ni
		}
		rest := jobs[sample:]
		jobs = jobs[:sample]
		// triage of the crash points that were not sampled: the independent fsck
		// reads each image (a pure function of the bytes, ~0.1 ms, no store code)
		// and the contents it reconstructs are compared with what is admissible
		// at that point. Images that look wrong to it are booted too, with the
		// light form of the recovery check. The triage only decides which images
		// the store is asked to recover; a violation is only ever what the
		// recovered store itself then shows.
		var sus2, sus1 []job
		for _, j := range rest {
			img := j.c.img
			if j.torn > 0 {
				img = tornImage(j.c, j.torn)
			}
			switch triage(img, j.c.adm, p) {
			case 2:
				sus2 = append(sus2, j)
			case 1:
				sus1 = append(sus1, j)
			}
		}
		out.Probes["triage-images"] += len(rest)
		out.Probes["triage-inadmissible"] += len(sus2)
		out.Probes["triage-fsck-errors"] += len(sus1)
		limit := 40
		if p.x("bg", 0) == 1 {
			limit = 80
		}
		for _, j := range append(sus2, sus1...) {
			if limit == 0 {
				break
			}
			limit--
			j.light = true
			jobs = append(jobs, j)
		}
	}
	seenImg := map[uint64]bool{}
	rc := &recoverer{p: p, out: out, opt: opt}
	for _, j := range jobs {
		rc.light = j.light
		img := j.c.img
		if j.torn > 0 {
			img = tornImage(j.c, j.torn)
		}
		h := img.Hash() ^ uint64(j.c.opIdx)*0x9e3779b97f4a7c15
		if seenImg[h] {
			out.Probes["crash-image-duplicate"]++
			continue
		}
		seenImg[h] = true
		out.States = append(out.States, img.Hash())
		out.Faults["crash"]++
		if j.torn > 0 {
			out.Faults["torn"]++
		}
		nested := -1
		if !j.light && r.Chance(0.1) {
			nested = -2 // choose after measuring the recovery's mutating ops
		}
		if j.light {
			out.Probes["light-recoveries"]++
		}
		where := fmt.Sprintf("crash before %s %s (mutating op %d, during plan op %d, torn=%d)", j.c.rec.Kind, j.c.rec.Path, j.c.mut, j.c.opIdx, j.torn)
		v := rc.recoverSearch(img, j.c.adm, nested, r, where)
		if v != nil && p.Prop == "C07" && !strings.Contains(v.Class, "fsck") {
			out.Probes["other-oracle-failed"]++
			v = nil
		}
		if v != nil && p.Prop == "C13" && !strings.Contains(v.Class, "ledger/") {
			out.Probes["other-oracle-failed"]++
			v = nil
		}
		if v != nil {
			out.Viol = v
			pp := p.Clone()
			pp.X["crash_at"] = j.c.mut
			pp.X["torn"] = j.torn
			pp.X["nested_at"] = rc.nestedUsed
			if j.light {
				pp.X["light"] = 1
			}
			out.Pinned = pp
			return out
		}
	}
	return out
}

// triage reads a crash image with the independent fsck: 2 = some key's contents
// as fsck reconstructs them are not admissible, 1 = fsck reports structural
// errors, 0 = looks fine.
func triage(img *simos.Image, adm *Adm, p *Plan) int {
	res := Fsck(fsckInput{Files: img.Files, Primary: p.Cfg.Primary})
	for i := range p.Keys {
		d := p.Keys[i].Digest
		mv, ok := res.Content[string(d)]
		if !adm.admissible(d, ok && mv.present, mv.val) {
			return 2
		}
	}
	if len(res.Errs) > 0 {
		return 1
	}
	return 0
}

// recoverer boots crash images.
type recoverer struct {
	p          *Plan
	out        *RunOut
	opt        RunOpt
	nestedUsed int
	// light: recovery is judged on the reads after Open, one Flush and the fsck
	// after it, without the continued workload, GC cycles and reopen
	light bool
}

// recoverSearch runs recovery; nested == -2 asks for a second crash at a random
// mutating op of the recovering Open.
func (rc *recoverer) recoverSearch(img *simos.Image, adm *Adm, nested int, r *simrt.Rand, where string) *Violation {
	rc.nestedUsed = -1
	if nested == -2 {
		// measure how many mutating ops the recovering open performs
		n := rc.measureOpen(img)
		if n > 0 {
			rc.nestedUsed = r.Intn(n)
		}
	}
	return rc.recover(img, adm, rc.nestedUsed, where)
}

func (rc *recoverer) measureOpen(img *simos.Image) int {
	fs := simos.Boot(img)
	d := NewDriver(rc.p)
	n := 0
	world(rc.p, simrt.ReplayTape(nil), fs, RunOpt{}, nil, func() {
		if err := d.Open(); err != nil {
			return
		}
		n = fsOf().MutCount
	})
	rc.out.Worlds++
	return n
}

// recover boots img; if nestedAt >= 0 the recovering process crashes before its
// nestedAt-th mutating op and the resulting image is recovered again.
func (rc *recoverer) recover(img *simos.Image, adm *Adm, nestedAt int, where string) *Violation {
	p := rc.p
	if nestedAt >= 0 {
		fs := simos.Boot(img)
		fs.Hook = func(f *simos.FS, rec *simos.OpRec, data []byte) simos.Action {
			if rec.Kind.Mutating() && rec.Mut == nestedAt {
				return simos.Action{Crash: true}
			}
			return simos.Action{}
		}
		d := NewDriver(p)
		_, res := world(p, simrt.ReplayTape(nil), fs, RunOpt{}, nil, func() {
			d.Open()
		})
		rc.out.Worlds++
		rc.out.Steps += res.Steps
		if res.Outcome == simrt.OutCrash {
			rc.out.Faults["crash-nested"]++
			fs.Hook = nil
			img = fs.Snapshot()
			where += fmt.Sprintf(" + second crash before mutating op %d of the recovering open", nestedAt)
		} else if res.Outcome == simrt.OutPanic {
			return &Violation{Prop: p.Prop, Class: "crash/panic", Msg: where + ": recovering open panicked: " + res.Reason + "\n" + trimStack(res.PanicStack)}
		}
	}
	fs := simos.Boot(img)
	d := NewDriver(p)
	d.FsckOn = true
	if p.x("bg", 0) == 1 {
		// the recovered store is driven sequentially (explicit GC cycles)
		d.Cfg.Flusher = false
		d.Cfg.GCMs = 1000 * 3600 * 1000
		d.Cfg.GCLimitMs = 0
	}
	w, res := world(p, simrt.ReplayTape(nil), fs, rc.opt, nil, func() {
		if err := d.Open(); err != nil {
			d.fail("crash/open-error", "%s: open after crash failed: %v", where, err)
			return
		}
		// every key must read as an admissible state
		for i, k := range p.Keys {
			g := d.Call(&Op{K: "get", Key: i})
			h := d.Call(&Op{K: "has", Key: i})
			s := d.Call(&Op{K: "size", Key: i})
			if g.Err != "" || h.Err != "" || s.Err != "" {
				d.fail("crash/read-error", "%s: key k%d reads as an error after recovery: get=%q has=%q size=%q", where, i, g.Err, h.Err, s.Err)
				return
			}
			if !adm.admissible(k.Digest, g.Found, g.Val) {
				st := "absent"
				if g.Found {
					st = short(g.Val)
				}
				cls := "crash/lost-key"
				if g.Found {
					cls = "crash/wrong-value"
				}
				d.fail(cls, "%s: key k%d reads %s after recovery; admissible %s", where, i, st, adm.describe(k.Digest))
				return
			}
			if h.Found != g.Found || s.Found != g.Found || (g.Found && s.Size != len(g.Val)) {
				d.fail("crash/inconsistent-reads", "%s: key k%d: get found=%v len=%d, has=%v, size found=%v %d", where, i, g.Found, len(g.Val), h.Found, s.Found, s.Size)
				return
			}
			// resynchronise the model with what was observed
			if g.Found {
				sk := k.StoreKey(p.Cfg.Primary, 0)
				d.Model.Set(k.Digest, mval{present: true, key: sk, val: append([]byte(nil), g.Val...)})
			}
		}
		d.recoveredKeyFix()
		if p.x("c13crash", 0) == 1 {
			rc.c13FollowUp(d, img, where)
			return
		}
		rc.followUp(d, where)
	})
	rc.out.Worlds++
	rc.out.Steps += res.Steps
	rc.out.SimTime += res.SimTime
	rc.out.addFS(fs)
	rc.out.Probes["recoveries"]++
	d.mergeProbes()
	rc.out.Probes["fsck"] += d.Probes["fsck"]
	if rc.opt.Trace {
		rc.out.Trace = append(rc.out.Trace, "--- recovery: "+where+" ---")
		rc.out.Trace = append(rc.out.Trace, w.FormatTrace(200)...)
	}
	if d.Viol != nil {
		if !strings.HasPrefix(d.Viol.Class, "crash/") {
			d.Viol.Class = "crash/after/" + d.Viol.Class
			d.Viol.Msg = where + ": after recovery: " + d.Viol.Msg
		}
		return d.Viol
	}
	switch res.Outcome {
	case simrt.OutPanic:
		return &Violation{Prop: p.Prop, Class: "crash/panic", Msg: where + ": recovered store panicked: " + res.Reason + "\n" + trimStack(res.PanicStack)}
	case simrt.OutDeadlock:
		return &Violation{Prop: p.Prop, Class: "crash/deadlock", Msg: where + ": recovered store deadlocked: " + stuckString(res.Stuck)}
	case simrt.OutCapped:
		rc.out.Inconclusive = res.Reason
	}
	return nil
}

// recoveredKeyFix makes the model's stored key bytes match what is on disk
// (after a crash the harness cannot know which encoding of the key was
// stored; iteration compares key bytes).
func (d *Driver) recoveredKeyFix() {
	if d.Model.Len() == 0 {
		return
	}
	r := d.Call(&Op{K: "iter"})
	if r.Err != "" {
		return
	}
	// exact match against the encodings of each plan key (a suffix match is
	// wrong for short keys: one key's digest can be the tail of another's)
	for _, it := range r.Items {
		for i := range d.P.Keys {
			k := d.P.Keys[i]
			mv, ok := d.Model.m[string(k.Digest)]
			if !ok || !mv.present || string(it.Val) != string(mv.val) {
				continue
			}
			for alt := 0; alt < 4; alt++ {
				if string(it.Key) == string(k.StoreKey(d.Cfg.Primary, alt)) {
					mv.key = it.Key
					d.Model.m[string(k.Digest)] = mv
					break
				}
			}
		}
	}
}

// c13FollowUp: three complete primary GC cycles (an existing hand-over file is
// reprocessed by the first, the freelist file handed over by the second), then
// every entry that was durable at the crash must have been applied.
func (rc *recoverer) c13FollowUp(d *Driver, img *simos.Image, where string) {
	check := crashEntriesApplied(img, uint64(d.Cfg.PrimaryFile))
	for i := 0; i < 3; i++ {
		d.PrimaryGC(&Op{K: "pgc", A: 101})
		if d.Viol != nil {
			return
		}
	}
	if k, ok := check(fsOf().Files()); !ok {
		d.fail("ledger/crash-entry-not-applied", "%s: the freelist (or its hand-over file) durably held an entry for location %d (size %d) when the process died, the record was intact, and after recovery and three complete primary GC cycles the record is still intact and not marked deleted: the entry was lost", where, k.Off, k.Size)
		return
	}
	rc.out.Probes["crash-ledger-check"]++
	d.CloseStore("final")
}

// followUp continues the workload on the recovered store: ops, flush, fsck, GC
// cycles of each kind, read-back, reopen, read-back.
func (rc *recoverer) followUp(d *Driver, where string) {
	p := rc.p
	if rc.light {
		d.Exec(&Op{K: "flush"})
		if d.Viol == nil {
			d.CloseStore("final")
		}
		return
	}
	n := p.x("followup", 10)
	r := simrt.NewRand(p.Seed ^ 0xf0110)
	vseq := 100000
	mix := opMix{put: 40, get: 15, has: 3, size: 3, remove: 15, flush: 10, iter: 4, reput: 2}
	ops := genSeqOps(r, n, len(p.Keys), mix, false, &vseq)
	for i := range ops {
		d.Exec(&ops[i])
		if d.Viol != nil {
			return
		}
	}
	d.Exec(&Op{K: "flush"})
	if d.Viol != nil {
		return
	}
	for cycle := 0; cycle < 2; cycle++ {
		d.Exec(&Op{K: "igc", A: 1})
		if d.Viol != nil {
			return
		}
		if p.Cfg.Primary != "CID" {
			d.Exec(&Op{K: "pgc", A: []int{85, 50}[cycle]})
			if d.Viol != nil {
				return
			}
		}
		d.Exec(&Op{K: "flush"})
		if d.Viol != nil {
			return
		}
	}
	d.ReadBack("after-gc")
	if d.Viol != nil {
		return
	}
	d.Exec(&Op{K: "reopen", A: 1})
	if d.Viol != nil {
		return
	}
	d.ReadBack("after-reopen")
	if d.Viol != nil {
		return
	}
	r2 := d.Call(&Op{K: "iter"})
	d.CheckSeq(&Op{K: "iter"}, r2)
	if d.Viol != nil {
		return
	}
	d.CloseStore("final")
}
