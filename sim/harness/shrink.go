package harness

import (
	"time"

	"verif/sim/simrt"
)

// Shrinking: plan structure first (drop clients, ops, keys; shorten values;
// default the configuration), then the tape (truncate, zero chunks). A candidate
// is accepted only while the same oracle reports the same violation class.

type shrinker struct {
	prop     string
	class    string
	opt      RunOpt
	runs     int
	maxRuns  int
	deadline time.Time
	best     *Plan
	bestTape []uint32
}

func (s *shrinker) try(p *Plan, tape []uint32) bool {
	if s.runs >= s.maxRuns || time.Now().After(s.deadline) {
		return false
	}
	s.runs++
	out := Execute(p, simrt.ReplayTape(tape), s.opt)
	if out.Viol != nil && out.Viol.Class == s.class {
		s.best = p
		s.bestTape = trimZeros(out.Tape)
		return true
	}
	return false
}

func trimZeros(t []uint32) []uint32 {
	n := len(t)
	for n > 0 && t[n-1] == 0 {
		n--
	}
	return append([]uint32{}, t[:n]...)
}

// Shrink minimises (plan, tape) for the violation class.
func Shrink(p *Plan, tape []uint32, class string, opt RunOpt, maxRuns int, budget time.Duration) (*Plan, []uint32, int) {
	s := &shrinker{prop: p.Prop, class: class, opt: opt, maxRuns: maxRuns, deadline: time.Now().Add(budget), best: p, bestTape: tape}
	opt.Trace = false
	// 0. all-default tape
	s.try(s.best.Clone(), nil)
	for round := 0; round < 3; round++ {
		before := s.runs
		changed := false
		// 1. drop whole clients
		for i := 0; i < len(s.best.Clients); i++ {
			if len(s.best.Clients) <= 1 {
				break
			}
			c := s.best.Clone()
			c.Clients = append(c.Clients[:i], c.Clients[i+1:]...)
			if s.try(c, s.bestTape) {
				changed = true
				i--
			}
		}
		// 2. drop ops (delta debugging on each list)
		if s.shrinkOps(func(p *Plan) *[]Op { return &p.Ops }) {
			changed = true
		}
		for ci := range s.best.Clients {
			ci := ci
			if ci >= len(s.best.Clients) {
				break
			}
			if s.shrinkOps(func(p *Plan) *[]Op { return &p.Clients[ci] }) {
				changed = true
			}
		}
		// 3. simplify values and configuration
		if s.simplify() {
			changed = true
		}
		// 4. tape
		if s.shrinkTape() {
			changed = true
		}
		if !changed || s.runs == before {
			break
		}
	}
	return s.best, s.bestTape, s.runs
}

func (s *shrinker) shrinkOps(sel func(p *Plan) *[]Op) bool {
	changed := false
	n := len(*sel(s.best))
	for chunk := n / 2; chunk >= 1; chunk /= 2 {
		for start := 0; start < len(*sel(s.best)); {
			ops := *sel(s.best)
			if start+chunk > len(ops) {
				break
			}
			c := s.best.Clone()
			l := sel(c)
			*l = append(append([]Op{}, ops[:start]...), ops[start+chunk:]...)
			if s.try(c, s.bestTape) {
				changed = true
			} else {
				start += chunk
			}
			if s.runs >= s.maxRuns {
				return changed
			}
		}
	}
	return changed
}

func (s *shrinker) simplify() bool {
	changed := false
	apply := func(f func(p *Plan) bool) {
		c := s.best.Clone()
		if f(c) && s.try(c, s.bestTape) {
			changed = true
		}
	}
	// shorter values
	eachOp := func(p *Plan, f func(o *Op) bool) bool {
		any := false
		for i := range p.Ops {
			if f(&p.Ops[i]) {
				any = true
			}
		}
		for ci := range p.Clients {
			for i := range p.Clients[ci] {
				if f(&p.Clients[ci][i]) {
					any = true
				}
			}
		}
		return any
	}
	apply(func(p *Plan) bool {
		return eachOp(p, func(o *Op) bool {
			if o.K == "put" && o.VLen > 8 {
				o.VLen = 8
				return true
			}
			return false
		})
	})
	apply(func(p *Plan) bool {
		return eachOp(p, func(o *Op) bool {
			if o.Alt != 0 {
				o.Alt = 0
				return true
			}
			return false
		})
	})
	// configuration towards defaults
	apply(func(p *Plan) bool {
		if p.Cfg.IndexFile != 1<<30 {
			p.Cfg.IndexFile = 1 << 30
			return true
		}
		return false
	})
	apply(func(p *Plan) bool {
		if p.Cfg.PrimaryFile != 1<<30 {
			p.Cfg.PrimaryFile = 1 << 30
			return true
		}
		return false
	})
	apply(func(p *Plan) bool {
		if p.Cfg.FileCache != 512 {
			p.Cfg.FileCache = 512
			return true
		}
		return false
	})
	apply(func(p *Plan) bool {
		if p.Cfg.Bits != 8 {
			p.Cfg.Bits = 8
			return true
		}
		return false
	})
	apply(func(p *Plan) bool {
		if p.Cfg.Flusher {
			p.Cfg.Flusher = false
			return true
		}
		return false
	})
	apply(func(p *Plan) bool {
		if p.Cfg.Immutable {
			p.Cfg.Immutable = false
			return true
		}
		return false
	})
	apply(func(p *Plan) bool {
		if p.Sim.Latency.Kind != "" || p.Sim.Latency.StallOp != 0 {
			p.Sim.Latency = LatencyCfg{}
			return true
		}
		return false
	})
	apply(func(p *Plan) bool {
		if p.Sim.PreemptEvery != 0 {
			p.Sim.PreemptEvery, p.Sim.PreemptNs = 0, 0
			return true
		}
		return false
	})
	apply(func(p *Plan) bool {
		if p.Sim.JitterNs != 0 {
			p.Sim.JitterNs = 0
			return true
		}
		return false
	})
	apply(func(p *Plan) bool {
		if p.Sim.SlowMod != 0 {
			p.Sim.SlowMod, p.Sim.SlowNs = 0, 0
			return true
		}
		return false
	})
	// drop unused keys from the end
	apply(func(p *Plan) bool {
		maxKey := 0
		eachOp(p, func(o *Op) bool {
			if o.Key > maxKey {
				maxKey = o.Key
			}
			return false
		})
		if maxKey+1 < len(p.Keys) {
			p.Keys = p.Keys[:maxKey+1]
			return true
		}
		return false
	})
	return changed
}

func (s *shrinker) shrinkTape() bool {
	changed := false
	// truncate
	for cut := len(s.bestTape) / 2; cut >= 1; cut /= 2 {
		for len(s.bestTape) >= cut && len(s.bestTape) > 0 {
			t := append([]uint32{}, s.bestTape[:len(s.bestTape)-cut]...)
			if !s.try(s.best.Clone(), t) {
				break
			}
			changed = true
		}
		if s.runs >= s.maxRuns {
			return changed
		}
	}
	// zero chunks
	n := len(s.bestTape)
	for chunk := n / 2; chunk >= 1; chunk /= 2 {
		for start := 0; start+chunk <= len(s.bestTape); start += chunk {
			allZero := true
			for _, v := range s.bestTape[start : start+chunk] {
				if v != 0 {
					allZero = false
					break
				}
			}
			if allZero {
				continue
			}
			t := append([]uint32{}, s.bestTape...)
			for i := start; i < start+chunk && i < len(t); i++ {
				t[i] = 0
			}
			if s.try(s.best.Clone(), t) {
				changed = true
			}
			if s.runs >= s.maxRuns {
				return changed
			}
		}
	}
	return changed
}
