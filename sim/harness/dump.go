package harness

import (
	"fmt"

	"verif/sim/simos"
)

// DumpFS prints the files of fs and the result of the independent fsck.
func DumpFS(fs *simos.FS, p *Plan) {
	files := fs.Files()
	for _, name := range fs.List() {
		d := files[name]
		if len(d) > 400 {
			fmt.Printf("FILE %s (%d bytes) %x...\n", name, len(d), d[:400])
		} else {
			fmt.Printf("FILE %s (%d bytes) %x\n", name, len(d), d)
		}
	}
	r := Fsck(fsckInput{Files: files, Primary: p.Cfg.Primary})
	fmt.Printf("FSCK(disk scan): %d errors, %d keys, buckets=%v\n", len(r.Errs), len(r.Content), r.Buckets)
	for _, e := range r.Errs {
		fmt.Println("  ", e)
	}
	if sb, ok := files[indexPath+".buckets"]; ok {
		lv := Fsck(fsckInput{Files: files, Primary: p.Cfg.Primary, Live: SnapshotTable(sb)})
		fmt.Printf("FSCK(snapshot file): %d errors, %d keys, buckets=%v\n", len(lv.Errs), len(lv.Content), lv.Buckets)
		for _, e := range lv.Errs {
			fmt.Println("  ", e)
		}
	}
}
